//! C03 / C04 (and the NUTS part of C14/C06): NUTS transition traces, build_tree, adaptation state.
use crate::c02::Tf;
use crate::util::*;
use crate::zoo::{B32, B64};
use burn::prelude::*;
use burn::tensor::backend::AutodiffBackend;
use mini_mcmc::distributions::{DiffableGaussian2D, GradientTarget, Rosenbrock2D};
use mini_mcmc::nuts::verif_api::{build_tree_verif, find_reasonable_epsilon_verif};
use mini_mcmc::nuts::NUTSChain;
use mini_mcmc::verif::{self, Event};
use num_traits::Float;
use rand::SeedableRng;
use serde_json::{json, Value};

#[derive(Clone, Debug)]
pub enum UserG {
    /// logp = -x^T A x / 2 (A row-major, d x d)
    GaussPrec(usize, Vec<f64>),
    /// Neal's funnel: v = x0 ~ N(0,3), x_i ~ N(0, exp(v/2))
    Funnel,
    /// logp = -s * sum x^4
    Quartic(f64),
    /// -x0 for x0 > 0 else -inf; other coords standard normal
    HalfLine,
    /// ln(x0) - x0 (NaN for x0 < 0)
    LogDomain,
    /// sqrt(1 - |x|^2)-type: logp = ln(1 - sum x^2) (NaN outside the unit ball)
    Ball,
    /// -x0 - 2 sqrt(x0) (NaN for x0 < 0, and so is its gradient: 1/sqrt of a negative number); other coords standard normal
    SqrtGrad,
}
impl<T: Float + burn::tensor::Element, B: AutodiffBackend> GradientTarget<T, B> for UserG {
    fn unnorm_logp(&self, x: Tensor<B, 1>) -> Tensor<B, 1> {
        let d = x.dims()[0];
        match self {
            UserG::GaussPrec(dd, a) => {
                assert_eq!(*dd, d);
                let m = Tensor::<B, 1>::from_floats(a.iter().map(|v| *v as f32).collect::<Vec<f32>>().as_slice(), &Default::default())
                    .reshape([d, d]);
                let z = x.clone().reshape([1, d]).matmul(m).reshape([d]);
                (z * x).sum().mul_scalar(-0.5)
            }
            UserG::Funnel => {
                let v = x.clone().slice([0..1]);
                let rest = x.clone().slice([1..d]);
                let q = rest.powi_scalar(2).sum() * (-v.clone()).exp();
                -(v.clone().powi_scalar(2).mul_scalar(1.0 / 18.0)) - q.mul_scalar(0.5) - v.mul_scalar((d as f32 - 1.0) * 0.5)
            }
            UserG::Quartic(s) => x.powi_scalar(4).sum().mul_scalar(-(*s as f32)),
            UserG::HalfLine => {
                let x0 = x.clone().slice([0..1]);
                let rest = x.clone().powi_scalar(2).sum().mul_scalar(-0.5) + x0.clone().powi_scalar(2).mul_scalar(0.5);
                let inside = x0.clone().greater_elem(0.0);
                let lp = -x0 + rest;
                Tensor::<B, 1>::full([1], f32::NEG_INFINITY, &Default::default()).mask_where(inside, lp)
            }
            UserG::LogDomain => {
                let x0 = x.clone().slice([0..1]);
                let rest = x.clone().powi_scalar(2).sum().mul_scalar(-0.5) + x0.clone().powi_scalar(2).mul_scalar(0.5);
                x0.clone().log() - x0 + rest
            }
            UserG::Ball => (-(x.powi_scalar(2).sum()) + 1.0).log(),
            UserG::SqrtGrad => {
                let x0 = x.clone().slice([0..1]);
                let rest = x.clone().powi_scalar(2).sum().mul_scalar(-0.5) + x0.clone().powi_scalar(2).mul_scalar(0.5);
                -x0.clone() - x0.sqrt().mul_scalar(2.0) + rest
            }
        }
    }
}

fn bits(v: &[f64]) -> Vec<u64> {
    v.iter().map(|x| x.to_bits()).collect()
}

pub fn event_json(e: &Event) -> Value {
    match e {
        Event::NutsStepStart { m, position, momentum, joint, exp1, logu, epsilon } => json!({"e": "start", "m": m,
            "position": bits(position), "momentum": bits(momentum), "joint": joint.to_bits(), "exp1": exp1.to_bits(),
            "logu": logu.to_bits(), "epsilon": epsilon.to_bits()}),
        Event::NutsDoubling { j, v, u_run_1 } => json!({"e": "doubling", "j": j, "v": v, "u1": u_run_1.to_bits()}),
        Event::NutsLeaf { v, position, momentum, joint, n_prime, s_prime, alpha, ratio } => json!({"e": "leaf", "v": v,
            "position": bits(position), "momentum": bits(momentum), "joint": joint.to_bits(), "n": n_prime, "s": s_prime,
            "alpha": alpha.to_bits(), "ratio": ratio.to_bits()}),
        Event::NutsMerge { j, u, n_first, n_second, took_second, n_after, s_after, alpha_after, n_alpha_after } => json!({
            "e": "merge", "j": j, "u": u.to_bits(), "n1": n_first, "n2": n_second, "took": took_second, "n": n_after,
            "s": s_after, "alpha": alpha_after.to_bits(), "nalpha": n_alpha_after}),
        Event::NutsDoublingEnd { n_prime, s_prime, alpha, n_alpha, u_run_2, tmp, accepted, n_after, s_after, position } => json!({
            "e": "end", "n": n_prime, "s": s_prime, "alpha": alpha.to_bits(), "nalpha": n_alpha, "u2": u_run_2.to_bits(),
            "tmp": tmp.to_bits(), "accepted": accepted, "n_after": n_after, "s_after": s_after, "position": bits(position)}),
        Event::NutsStepEnd { m, position, epsilon, epsilon_bar, h_bar, mu, alpha, n_alpha } => json!({"e": "stepend", "m": m,
            "position": bits(position), "epsilon": epsilon.to_bits(), "epsilon_bar": epsilon_bar.to_bits(),
            "h_bar": h_bar.to_bits(), "mu": mu.to_bits(), "alpha": alpha.to_bits(), "nalpha": n_alpha}),
        _ => json!(null),
    }
}

fn transitions_generic<T, B, G>(c: &Value, target: G) -> Value
where
    T: Tf,
    B: AutodiffBackend,
    G: GradientTarget<T, B> + Sync + Clone,
    rand_distr::StandardNormal: rand::distr::Distribution<T>,
    rand_distr::StandardUniform: rand_distr::Distribution<T>,
    rand_distr::Exp1: rand_distr::Distribution<T>,
{
    let t = |x: f64| T::from_f64(x).unwrap();
    let init: Vec<T> = u64s(&c["init"]).into_iter().map(|b| t(f64::from_bits(b))).collect();
    let acc = c["accept"].as_f64().unwrap_or(0.8);
    let seed = u64f(c, "seed");
    let runs: Vec<(usize, usize)> = arr(c, "runs").iter().map(|r| (r[0].as_u64().unwrap() as usize, r[1].as_u64().unwrap() as usize)).collect();
    let mut ch = NUTSChain::<T, B, G>::new(target, init, t(acc)).set_seed(seed);
    let f = |x: T| num_traits::ToPrimitive::to_f64(&x).unwrap().to_bits();
    let mut out_runs = vec![];
    let only_ends = c["events_filter"].as_str() == Some("stepend");
    let reposition: Vec<Option<Vec<T>>> = match c["reposition"].as_array() {
        Some(a) => a.iter().map(|r| if r.is_null() { None } else { Some(u64s(r).into_iter().map(|b| t(f64::from_bits(b))).collect()) }).collect(),
        None => vec![],
    };
    for (ri, (n, d)) in runs.into_iter().enumerate() {
        // the chain's position is a public field: a user may restart the chain elsewhere between runs
        if let Some(Some(x)) = reposition.get(ri) {
            ch.position = Tensor::<B, 1>::from_data(TensorData::new(x.clone(), [x.len()]), &Default::default());
        }
        let traced = c["trace"].as_bool().unwrap_or(true);
        let st0 = ch.adapt_state();
        if traced {
            verif::start();
        }
        // the same sequence run() performs: init_chain, then n + d - 1 steps
        ch.init_chain_verif(n, d);
        let st1 = ch.adapt_state();
        if let Some(e) = c["force_eps"].as_u64() {
            ch.set_epsilon_verif(t(f64::from_bits(e)));
        }
        let mut states = vec![];
        for _ in 1..(n + d) {
            ch.step();
            let s = ch.adapt_state();
            states.push(json!([s.0, f(s.1), f(s.2), f(s.3), f(s.4), s.5]));
        }
        let ev = if traced { verif::take() } else { vec![] };
        out_runs.push(json!({"n": n, "d": d,
            "before_init": [st0.0, f(st0.1), f(st0.2), f(st0.3), f(st0.4), st0.5],
            "after_init": [st1.0, f(st1.1), f(st1.2), f(st1.3), f(st1.4), st1.5],
            "states": states, "events": ev.iter().filter(|e| !only_ends || matches!(e, Event::NutsStepEnd { .. } | Event::NutsStepStart { .. })).map(event_json).collect::<Vec<_>>()}));
    }
    json!({"runs": out_runs})
}

pub fn mk_target_and_run<T, B>(c: &Value) -> Value
where
    T: Tf,
    B: AutodiffBackend,
    rand_distr::StandardNormal: rand::distr::Distribution<T>,
    rand_distr::StandardUniform: rand_distr::Distribution<T>,
    rand_distr::Exp1: rand_distr::Distribution<T>,
{
    let t = |x: f64| T::from_f64(x).unwrap();
    let tg = &c["target"];
    match strf(tg, "kind") {
        "gauss2d" => {
            let m: Vec<f64> = u64s(&tg["mean"]).into_iter().map(f64::from_bits).collect();
            let cv: Vec<f64> = u64s(&tg["cov"]).into_iter().map(f64::from_bits).collect();
            let g = DiffableGaussian2D::new([t(m[0]), t(m[1])], [[t(cv[0]), t(cv[1])], [t(cv[2]), t(cv[3])]]);
            transitions_generic::<T, B, _>(c, g)
        }
        "rosen2d" => {
            let a = f64::from_bits(u64f(tg, "a"));
            let b = f64::from_bits(u64f(tg, "b"));
            transitions_generic::<T, B, _>(c, Rosenbrock2D { a: t(a), b: t(b) })
        }
        "gaussprec" => {
            let a: Vec<f64> = u64s(&tg["prec"]).into_iter().map(f64::from_bits).collect();
            transitions_generic::<T, B, _>(c, UserG::GaussPrec(us(tg, "d"), a))
        }
        "funnel" => transitions_generic::<T, B, _>(c, UserG::Funnel),
        "quartic" => transitions_generic::<T, B, _>(c, UserG::Quartic(f64::from_bits(u64f(tg, "s")))),
        "halfline" => transitions_generic::<T, B, _>(c, UserG::HalfLine),
        "logdomain" => transitions_generic::<T, B, _>(c, UserG::LogDomain),
        "ball" => transitions_generic::<T, B, _>(c, UserG::Ball),
        "sqrtgrad" => transitions_generic::<T, B, _>(c, UserG::SqrtGrad),
        k => panic!("unknown target {k}"),
    }
}

/// direct build_tree call on a d-dimensional Gaussian target
fn bt<T, B>(c: &Value) -> Value
where
    T: Tf,
    B: AutodiffBackend,
{
    let t = |x: f64| T::from_f64(x).unwrap();
    let tg = &c["target"];
    let a: Vec<f64> = u64s(&tg["prec"]).into_iter().map(f64::from_bits).collect();
    let target = UserG::GaussPrec(us(tg, "d"), a);
    let mk = |k: &str| {
        let v: Vec<T> = u64s(&c[k]).into_iter().map(|b| t(f64::from_bits(b))).collect();
        Tensor::<B, 1>::from_data(TensorData::new(v.clone(), [v.len()]), &Default::default())
    };
    let pos = mk("position");
    let mom = mk("momentum");
    let (_, grad) = <UserG as GradientTarget<T, B>>::unnorm_logp_and_grad(&target, pos.clone());
    let mut rng = rand::rngs::SmallRng::seed_from_u64(u64f(c, "seed"));
    let v = c["v"].as_i64().unwrap() as i8;
    let f = |x: T| num_traits::ToPrimitive::to_f64(&x).unwrap().to_bits();
    verif::start();
    let r = build_tree_verif::<B, T, _>(pos, mom, grad, t(f64::from_bits(u64f(c, "logu"))), v, us(c, "j"),
                                        t(f64::from_bits(u64f(c, "eps"))), &target, t(f64::from_bits(u64f(c, "joint0"))), &mut rng);
    let ev = verif::take();
    json!({"events": ev.iter().map(event_json).collect::<Vec<_>>(),
           "zm": bits(&verif::tensor_f64(&r.0)), "zp": bits(&verif::tensor_f64(&r.3)), "cand": bits(&verif::tensor_f64(&r.6)),
           "n": r.9, "s": r.10, "alpha": f(r.11), "nalpha": r.12})
}

fn fre<T, B>(c: &Value) -> Value
where
    T: Tf,
    B: AutodiffBackend,
{
    let t = |x: f64| T::from_f64(x).unwrap();
    let tg = &c["target"];
    let target = match strf(tg, "kind") {
        "gaussprec" => UserG::GaussPrec(us(tg, "d"), u64s(&tg["prec"]).into_iter().map(f64::from_bits).collect()),
        "halfline" => UserG::HalfLine,
        "logdomain" => UserG::LogDomain,
        "ball" => UserG::Ball,
        "sqrtgrad" => UserG::SqrtGrad,
        "quartic" => UserG::Quartic(f64::from_bits(u64f(tg, "s"))),
        k => panic!("unknown target {k}"),
    };
    let mk = |k: &str| {
        let v: Vec<T> = u64s(&c[k]).into_iter().map(|b| t(f64::from_bits(b))).collect();
        Tensor::<B, 1>::from_data(TensorData::new(v.clone(), [v.len()]), &Default::default())
    };
    let e: T = find_reasonable_epsilon_verif::<B, T, _>(mk("position"), mk("momentum"), &target);
    json!({"eps": num_traits::ToPrimitive::to_f64(&e).unwrap().to_bits()})
}

pub fn run(c: &Value) -> Value {
    match (strf(c, "op"), strf(c, "f")) {
        ("transitions", "f32") => mk_target_and_run::<f32, B32>(c),
        ("transitions", "f64") => mk_target_and_run::<f64, B64>(c),
        ("build_tree", "f32") => bt::<f32, B32>(c),
        ("build_tree", "f64") => bt::<f64, B64>(c),
        ("multi", "f32") => multi::<f32, B32>(c),
        ("multi", "f64") => multi::<f64, B64>(c),
        ("replay_draws", "f32") => replay_draws::<f32>(c),
        ("replay_draws", "f64") => replay_draws::<f64>(c),
        ("find_eps", "f32") => fre::<f32, B32>(c),
        ("find_eps", "f64") => fre::<f64, B64>(c),
        (op, f) => panic!("unknown op {op}/{f}"),
    }
}

/// The values an identically seeded SmallRng yields for a given sequence of draw kinds
/// (0 = StandardNormal in T, 1 = Exp1 in T, 2 = uniform in T, 3 = uniform f64), rendered as f64 bits.
fn replay_draws<T>(c: &Value) -> Value
where
    T: Tf,
    rand_distr::StandardNormal: rand::distr::Distribution<T>,
    rand_distr::StandardUniform: rand_distr::Distribution<T>,
    rand_distr::Exp1: rand_distr::Distribution<T>,
{
    use rand::Rng;
    let mut r = rand::rngs::SmallRng::seed_from_u64(u64f(c, "seed"));
    let f = |x: T| num_traits::ToPrimitive::to_f64(&x).unwrap().to_bits();
    let vals: Vec<u64> = arr(c, "kinds")
        .iter()
        .map(|k| match k.as_u64().unwrap() {
            0 => { let z: T = r.sample(rand_distr::StandardNormal); f(z) }
            1 => { let e: T = r.sample(rand_distr::Exp1); f(e) }
            2 => { let u: T = r.random::<T>(); f(u) }
            _ => r.random::<f64>().to_bits(),
        })
        .collect();
    json!({"values": vals})
}

/// The multi-chain wrapper NUTS against stand-alone chains: NUTS::new(target, inits, accept).set_seed(seed).run(n, d)
/// (or run_progress), then the adaptation state of every chain, next to the state of a NUTSChain built from the same
/// start point with seed + i + 1 and run alone.
fn multi<T, B>(c: &Value) -> Value
where
    T: Tf + Send + rand_distr::uniform::SampleUniform + num_traits::FromPrimitive,
    B: AutodiffBackend + Send,
    rand_distr::StandardNormal: rand::distr::Distribution<T>,
    rand_distr::StandardUniform: rand_distr::Distribution<T>,
    rand_distr::Exp1: rand_distr::Distribution<T>,
{
    use mini_mcmc::nuts::NUTS;
    let t = |x: f64| T::from_f64(x).unwrap();
    let f = |x: T| num_traits::ToPrimitive::to_f64(&x).unwrap().to_bits();
    let inits: Vec<Vec<T>> = arr(c, "inits").iter().map(|r| u64s(r).into_iter().map(|b| t(f64::from_bits(b))).collect()).collect();
    let acc = c["accept"].as_f64().unwrap_or(0.8);
    let seed = u64f(c, "seed");
    let (n, d) = (us(c, "n"), us(c, "d"));
    let target = DiffableGaussian2D::new([t(0.0), t(0.0)], [[t(1.0), t(0.0)], [t(0.0), t(1.0)]]);
    let mut s = NUTS::<T, B, _>::new(target.clone(), inits.clone(), t(acc)).set_seed(seed);
    if c["progress"].as_bool().unwrap_or(false) {
        let _ = s.run_progress(n, d).expect("run_progress");
    } else {
        let _ = s.run(n, d);
    }
    let st = |x: (usize, T, T, T, T, usize)| json!([x.0, f(x.1), f(x.2), f(x.3), f(x.4), x.5]);
    let wrapper: Vec<Value> = s.adapt_states_verif().into_iter().map(st).collect();
    let alone: Vec<Value> = inits
        .iter()
        .enumerate()
        .map(|(i, x0)| {
            let mut ch = NUTSChain::<T, B, _>::new(target.clone(), x0.clone(), t(acc)).set_seed(seed.wrapping_add(i as u64).wrapping_add(1));
            if c["progress"].as_bool().unwrap_or(false) {
                // run_progress of the wrapper performs n + d transitions after init_chain
                ch.init_chain_verif(n, d);
                for _ in 0..(n + d) {
                    ch.step();
                }
            } else {
                let _ = ch.run(n, d);
            }
            st(ch.adapt_state())
        })
        .collect();
    json!({"wrapper": wrapper, "alone": alone})
}
