"""Reference reading of rand 0.9.2 SmallRng (xoshiro256++ seeded through SplitMix64) and rand_distr 0.5.1
StandardNormal / Exp1 (ziggurat) in plain Python doubles, written from the crate sources and independent of the Coq model.

Used by the correspondence checks to (a) supply the values of the platform's exp / ln that the Coq model consumes as an
oracle (Python's math.exp / math.log call the same libm as Rust's f64::exp / f64::ln on this platform), and (b) as a second
opinion on every draw.  Each sampler returns the value and appends to `self.oracle` the (kind, argument, value) triples in
the order the model consumes them (kind 0 = exp, 1 = ln)."""
import math, struct
import gen_zigtables

M = (1 << 64) - 1
_tabs = None


def tabs():
    global _tabs
    if _tabs is None:
        p, _ = gen_zigtables.source_path()
        _tabs = gen_zigtables.parse(p)
    return _tabs


def f2b(x):
    return struct.unpack("<Q", struct.pack("<d", x))[0]


def b2f(b):
    return struct.unpack("<d", struct.pack("<Q", b))[0]


def rotl(x, k):
    return ((x << k) & M) | (x >> (64 - k))


class SmallRng:
    def __init__(self, seed):
        s = []
        st = seed & M
        for _ in range(4):
            st = (st + 0x9e3779b97f4a7c15) & M
            z = st
            z = ((z ^ (z >> 30)) * 0xbf58476d1ce4e5b9) & M
            z = ((z ^ (z >> 27)) * 0x94d049bb133111eb) & M
            s.append(z ^ (z >> 31))
        self.s = s
        self.oracle = []
        self.words = 0

    def next_u64(self):
        s = self.s
        res = (rotl((s[0] + s[3]) & M, 23) + s[0]) & M
        t = (s[1] << 17) & M
        s[2] ^= s[0]
        s[3] ^= s[1]
        s[1] ^= s[2]
        s[0] ^= s[3]
        s[2] ^= t
        s[3] = rotl(s[3], 45)
        self.words += 1
        return res

    def unif_f64(self):
        return (self.next_u64() >> 11) * 2.0 ** -53

    def unif53(self):
        return self.next_u64() >> 11

    def unif24(self):
        return (self.next_u64() >> 32) >> 8

    def open01(self):
        return b2f((self.next_u64() >> 12) | (1023 << 52)) - (1.0 - 2.0 ** -53)

    def _ln(self, a):
        v = math.log(a) if a > 0 else (-math.inf if a == 0 else math.nan)
        self.oracle.append((1, f2b(a), f2b(v)))
        return v

    def _exp(self, a):
        v = math.exp(a)
        self.oracle.append((0, f2b(a), f2b(v)))
        return v

    def _zig(self, symmetric):
        t = tabs()
        X = t["ZIG_NORM_X"] if symmetric else t["ZIG_EXP_X"]
        F = t["ZIG_NORM_F"] if symmetric else t["ZIG_EXP_F"]
        while True:
            bits = self.next_u64()
            i = bits & 0xff
            if symmetric:
                u = b2f((bits >> 12) | (1024 << 52)) - 3.0
            else:
                u = b2f((bits >> 12) | (1023 << 52)) - (1.0 - 2.0 ** -53)
            x = u * X[i]
            tx = abs(x) if symmetric else x
            if tx < X[i + 1]:
                return x
            if i == 0:
                if symmetric:
                    R = t["ZIG_NORM_R"]
                    xx, yy = 1.0, 0.0
                    while -2.0 * yy < xx * xx:
                        a = self.open01()
                        b = self.open01()
                        la = self._ln(a)
                        lb = self._ln(b)
                        xx = la / R
                        yy = lb
                    return xx - R if u < 0.0 else R - xx
                return t["ZIG_EXP_R"] - self._ln(self.unif_f64())
            w = self.unif_f64()
            e = self._exp((-x * x) / 2.0 if symmetric else -x)
            if F[i + 1] + (F[i] - F[i + 1]) * w < e:
                return x

    def std_normal(self):
        return self._zig(True)

    def exp1(self):
        return self._zig(False)


def normals(seed, k):
    """bits of k StandardNormal f64 draws of SmallRng::seed_from_u64(seed), and the oracle triples consumed"""
    r = SmallRng(seed)
    xs = [f2b(r.std_normal()) for _ in range(k)]
    return xs, r.oracle


def mixed(seed, kinds):
    r = SmallRng(seed)
    out = []
    for k in kinds:
        if k == 0:
            out.append(f2b(r.std_normal()))
        elif k == 1:
            out.append(f2b(r.exp1()))
        elif k == 2:
            out.append(r.unif53())
        else:
            out.append(r.unif24())
    return out, r.oracle
