"""Shared sample-array generators for C11 / C12."""
import math


def ar1(rng, n, phi, sd, loc, trend=0.0):
    x = 0.0
    out = []
    for t in range(n):
        x = phi * x + rng.gauss(0.0, 1.0) * math.sqrt(max(1e-9, 1 - phi * phi))
        out.append(int(round(loc + trend * t + sd * x)))
    return out


def gen_array(rng, m, n, p, style=None):
    """data[chain][draw][param] small integers."""
    style = style or rng.choice(["iid", "ar1", "ar1neg", "trend", "bimodal", "displaced", "far"])
    sd = rng.choice([4, 10, 40])
    data = [[[0] * p for _ in range(n)] for _ in range(m)]
    for k in range(p):
        loc0 = rng.choice([0, 0, 5, -20, 100]) * sd
        for c in range(m):
            loc, phi, trend = loc0, 0.0, 0.0
            if style == "ar1":
                phi = rng.choice([0.3, 0.6, 0.9, 0.97])
            elif style == "ar1neg":
                phi = rng.choice([-0.3, -0.6, -0.85])
            elif style == "trend":
                trend = sd * rng.choice([0.01, 0.05, -0.03])
            elif style == "displaced":
                loc = loc0 + c * sd * rng.choice([1, 3, 10])
            elif style == "far":
                loc = loc0 + c * sd * rng.choice([100, 1000, 10000])
            col = ar1(rng, n, phi, sd, loc, trend)
            if style == "bimodal":
                col = [v + (6 * sd if rng.random() < 0.5 else 0) for v in col]
            for t in range(n):
                data[c][t][k] = col[t]
    return data, style
