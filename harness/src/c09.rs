//! C09: run(): shape, chain order, burn-in discard, continuation.
use crate::util::*;
use mini_mcmc::core::{ChainRunner, HasChains, MarkovChain};
use serde_json::{json, Value};

#[derive(Clone)]
pub struct CountChain {
    pub state: Vec<i64>,
}
impl MarkovChain<i64> for CountChain {
    fn step(&mut self) -> &Vec<i64> {
        for (k, x) in self.state.iter_mut().enumerate() {
            *x = *x + k as i64 + 1;
        }
        &self.state
    }
    fn current_state(&self) -> &Vec<i64> {
        &self.state
    }
}
pub struct CountSampler {
    pub chains: Vec<CountChain>,
}
impl HasChains<i64> for CountSampler {
    type Chain = CountChain;
    fn chains_mut(&mut self) -> &mut Vec<CountChain> {
        &mut self.chains
    }
}

fn counting(c: &Value) -> Value {
    let init: Vec<Vec<i64>> = arr(c, "init").iter().map(i64s).collect();
    let mut s = CountSampler { chains: init.into_iter().map(|state| CountChain { state }).collect() };
    let mut flat: Vec<i64> = vec![];
    let mut shapes = vec![];
    for call in arr(c, "calls") {
        let n = call[0].as_u64().unwrap() as usize;
        let d = call[1].as_u64().unwrap() as usize;
        let out = s.run(n, d).expect("run");
        shapes.push(json!(out.shape()));
        flat.extend(out.iter().cloned());
    }
    for ch in &s.chains {
        flat.extend(ch.state.iter().cloned());
    }
    json!({"flat": flat, "shapes": shapes})
}

pub fn run(c: &Value) -> Value {
    match strf(c, "op") {
        "counting" => counting(c),
        op => panic!("unknown op {op}"),
    }
}
