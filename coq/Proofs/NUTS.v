(* Proofs about Model/NUTS.v: build_tree (Hoffman & Gelman, Algorithm 6) and the doubling loop.
   Everything is proved for arbitrary oracles; no order law on `flt`, no relation between
   `leap true` and `leap false`, no law on `noturn` is used. *)
From MiniMcmc Require Import Base.Util Model.NUTS.
Local Open Scope nat_scope.

(* ---- generic list facts ---- *)
Lemma find_app_ {X} (f : X -> bool) (l1 l2 : list X) :
  find f (l1 ++ l2) = match find f l1 with Some x => Some x | None => find f l2 end.
Proof.
  induction l1 as [|x l1 IH]; simpl; [reflexivity|].
  destruct (f x); [reflexivity|exact IH].
Qed.

Lemma nth_error_split_ {X} (l : list X) (i : nat) (d : X) :
  nth_error l i = Some d -> l = firstn i l ++ d :: skipn (S i) l.
Proof.
  revert i; induction l as [|x l IH]; intros [|i] H; simpl in *; try discriminate.
  - inversion H; reflexivity.
  - f_equal. apply IH. exact H.
Qed.

Section NUTSProofs.
  Context {P F A U : Type}.
  Variable leap : bool -> P -> P.
  Variable joint : P -> F.
  Variable noturn : P -> P -> bool.
  Variable flt : F -> F -> bool.
  Variable sub1000 : F -> F.
  Variable alpha1 : P -> A.
  Variable aadd : A -> A -> A.
  Variable take2 : U -> nat -> nat -> bool.
  Variable logu : F.
  Variable accept_top : U -> nat -> nat -> bool.

  Notation tree := (@tree P A).
  Notation dbl := (@dbl P A).
  Notation nst := (@nst P).
  Notation leaf := (leaf leap joint flt sub1000 alpha1 logu).
  Notation merge := (merge noturn aadd take2).
  Notation build_tree := (build_tree leap joint noturn flt sub1000 alpha1 aadd take2 logu).
  Notation visited := (visited leap joint noturn flt sub1000 alpha1 aadd take2 logu).
  Notation doublings := (doublings leap joint noturn flt sub1000 alpha1 aadd take2 logu accept_top).
  Notation transition := (transition leap joint noturn flt sub1000 alpha1 aadd take2 logu accept_top).

  (* the point reached from z by k leapfrog steps in direction v *)
  Definition traj (v : bool) (z : P) (k : nat) : P := iter k (leap v) z.

  (* far / near end of a sub-tree built in direction v *)
  Definition far_end (v : bool) (t : tree) : P := if v then zp t else zm t.
  Definition near_end (v : bool) (t : tree) : P := if v then zm t else zp t.

  (* slice-admissible / non-divergent leaf *)
  Definition admissible (l : P) : bool := flt logu (joint l).
  Definition nondiv (l : P) : bool := flt (sub1000 logu) (joint l).

  Lemma traj_0 v z : traj v z 0 = z.
  Proof. reflexivity. Qed.

  Lemma traj_1 v z : traj v z 1 = leap v z.
  Proof. reflexivity. Qed.

  Lemma traj_traj v z a b : traj v (traj v z a) b = traj v z (b + a).
  Proof. unfold traj. symmetry. apply iter_add. Qed.

  Lemma map_traj_shift v z m1 m2 a :
    map (traj v (traj v z m1)) (seq a m2) = map (traj v z) (seq (a + m1) m2).
  Proof.
    revert a; induction m2 as [|m2 IH]; intros a; simpl; [reflexivity|].
    f_equal; [apply traj_traj|]. exact (IH (S a)).
  Qed.

  Lemma pow2_pos j : 1 <= 2 ^ j.
  Proof. induction j as [|j IH]; simpl; lia. Qed.

  (* ---------------------------------------------------------------- (1) leaves *)
  Lemma build_tree_leaves : forall j z v us t us',
    build_tree j z v us = Some (t, us') ->
    exists m, 1 <= m <= 2 ^ j /\
      visited j z v us = map (traj v z) (seq 1 m) /\
      tnalpha t = m /\
      far_end v t = traj v z m /\
      near_end v t = traj v z 1 /\
      (ts t = true -> m = 2 ^ j).
  Proof.
    induction j as [|k IH]; intros z v us t us' H.
    - simpl in H. inversion H; subst. exists 1. simpl.
      repeat split; try lia; destruct v; reflexivity.
    - simpl in H.
      destruct (build_tree k z v us) as [[t1 us1]|] eqn:E1; [|discriminate].
      destruct (IH _ _ _ _ _ E1) as (m1 & Hm1 & Hv1 & Hn1 & Hf1 & Hne1 & Hs1).
      assert (Hfar : (if v then zp t1 else zm t1) = traj v z m1) by exact Hf1.
      destruct (ts t1) eqn:Es1.
      + rewrite Hfar in H.
        destruct (build_tree k (traj v z m1) v us1) as [[t2 us2]|] eqn:E2; [|discriminate].
        destruct us2 as [|u us3]; [discriminate|]. inversion H; subst t us'.
        destruct (IH _ _ _ _ _ E2) as (m2 & Hm2 & Hv2 & Hn2 & Hf2 & Hne2 & Hs2).
        specialize (Hs1 eq_refl).
        exists (m1 + m2). simpl visited. rewrite E1, Es1, Hfar, Hv1, Hv2.
        split; [simpl; lia|].
        split; [rewrite seq_app, map_app, map_traj_shift; reflexivity|].
        split; [simpl; lia|].
        split; [|split].
        * transitivity (far_end v t2); [destruct v; reflexivity|].
          rewrite Hf2, traj_traj. f_equal. lia.
        * transitivity (near_end v t1); [destruct v; reflexivity|]. exact Hne1.
        * simpl. intros Hs. apply andb_true_iff in Hs. destruct Hs as [Hs _].
          apply andb_true_iff in Hs. destruct Hs as [_ Hs]. specialize (Hs2 Hs). lia.
      + inversion H; subst t us'.
        exists m1. simpl visited. rewrite E1, Es1, app_nil_r.
        split; [simpl; lia|].
        split; [exact Hv1|]. split; [exact Hn1|]. split; [exact Hf1|]. split; [exact Hne1|].
        intros Hs; congruence.
  Qed.

  (* ---------------------------------------------------------------- (2) counts *)
  Lemma build_tree_tn : forall j z v us t us',
    build_tree j z v us = Some (t, us') ->
    tn t = length (filter admissible (visited j z v us)).
  Proof.
    induction j as [|k IH]; intros z v us t us' H.
    - simpl in H. inversion H; subst. simpl. unfold admissible.
      destruct (flt logu (joint (leap v z))); reflexivity.
    - simpl in H. simpl visited.
      destruct (build_tree k z v us) as [[t1 us1]|] eqn:E1; [|discriminate].
      pose proof (IH _ _ _ _ _ E1) as H1.
      destruct (ts t1) eqn:Es1.
      + destruct (build_tree k (if v then zp t1 else zm t1) v us1) as [[t2 us2]|] eqn:E2;
          [|discriminate].
        destruct us2 as [|u us3]; [discriminate|]. inversion H; subst t us'.
        pose proof (IH _ _ _ _ _ E2) as H2.
        rewrite filter_app, app_length, <- H1, <- H2. reflexivity.
      + inversion H; subst t us'. rewrite app_nil_r. exact H1.
  Qed.

  Lemma build_tree_tnalpha : forall j z v us t us',
    build_tree j z v us = Some (t, us') -> tnalpha t = length (visited j z v us).
  Proof.
    intros j z v us t us' H.
    destruct (build_tree_leaves _ _ _ _ _ _ H) as (m & _ & Hv & Hn & _).
    rewrite Hv, map_length, seq_length. exact Hn.
  Qed.

  Lemma build_tree_nondiv : forall j z v us t us',
    build_tree j z v us = Some (t, us') -> ts t = true ->
    forall l, In l (visited j z v us) -> nondiv l = true.
  Proof.
    induction j as [|k IH]; intros z v us t us' H Hs l Hl.
    - simpl in H. inversion H; subst. simpl in Hs, Hl. destruct Hl as [<-|[]]. exact Hs.
    - simpl in H. simpl visited in Hl.
      destruct (build_tree k z v us) as [[t1 us1]|] eqn:E1; [|discriminate].
      destruct (ts t1) eqn:Es1.
      + destruct (build_tree k (if v then zp t1 else zm t1) v us1) as [[t2 us2]|] eqn:E2;
          [|discriminate].
        destruct us2 as [|u us3]; [discriminate|]. inversion H; subst t us'.
        simpl in Hs. apply andb_true_iff in Hs. destruct Hs as [Hs _].
        apply andb_true_iff in Hs. destruct Hs as [_ Hs2].
        apply in_app_or in Hl. destruct Hl as [Hl|Hl].
        * exact (IH _ _ _ _ _ E1 Es1 l Hl).
        * exact (IH _ _ _ _ _ E2 Hs2 l Hl).
      + inversion H; subst t us'. congruence.
  Qed.

  Lemma build_tree_counts : forall j z v us t us',
    build_tree j z v us = Some (t, us') ->
    tn t = length (filter admissible (visited j z v us)) /\
    tnalpha t = length (visited j z v us) /\
    (ts t = true -> forall l, In l (visited j z v us) -> nondiv l = true).
  Proof.
    intros j z v us t us' H. split; [exact (build_tree_tn _ _ _ _ _ _ H)|].
    split; [exact (build_tree_tnalpha _ _ _ _ _ _ H)|exact (build_tree_nondiv _ _ _ _ _ _ H)].
  Qed.

  (* a complete, non-stopped sub-tree also passed the U-turn test on its own two ends *)
  Lemma build_tree_noturn : forall k z v us t us',
    build_tree (S k) z v us = Some (t, us') -> ts t = true -> noturn (zm t) (zp t) = true.
  Proof.
    intros k z v us t us' H Hs. simpl in H.
    destruct (build_tree k z v us) as [[t1 us1]|] eqn:E1; [|discriminate].
    destruct (ts t1) eqn:Es1.
    - destruct (build_tree k (if v then zp t1 else zm t1) v us1) as [[t2 us2]|] eqn:E2;
        [|discriminate].
      destruct us2 as [|u us3]; [discriminate|]. inversion H; subst t us'.
      simpl in Hs. apply andb_true_iff in Hs. destruct Hs as [_ Hs]. exact Hs.
    - inversion H; subst t us'. congruence.
  Qed.

  (* ---- acceptance statistic ---- *)
  Section AlphaSum.
    Variable azero : A.
    Hypothesis aadd_assoc : forall a b c, aadd a (aadd b c) = aadd (aadd a b) c.

    Definition asum (l : list P) : A :=
      match l with
      | [] => azero
      | x :: xs => fold_left aadd (map alpha1 xs) (alpha1 x)
      end.

    Lemma fold_left_aadd_out : forall l a b,
      fold_left aadd l (aadd a b) = aadd a (fold_left aadd l b).
    Proof.
      induction l as [|c l IH]; intros a b; simpl; [reflexivity|].
      rewrite <- aadd_assoc. apply IH.
    Qed.

    Lemma asum_app : forall l1 l2, l1 <> [] -> l2 <> [] ->
      asum (l1 ++ l2) = aadd (asum l1) (asum l2).
    Proof.
      intros [|x xs] [|y ys] H1 H2; try congruence. simpl.
      rewrite map_app, fold_left_app. simpl. apply fold_left_aadd_out.
    Qed.

    Lemma visited_nonempty : forall j z v us t us',
      build_tree j z v us = Some (t, us') -> visited j z v us <> [].
    Proof.
      intros j z v us t us' H.
      destruct (build_tree_leaves _ _ _ _ _ _ H) as (m & Hm & Hv & _).
      rewrite Hv. destruct m; [lia|]. simpl. discriminate.
    Qed.

    Lemma build_tree_talpha : forall j z v us t us',
      build_tree j z v us = Some (t, us') -> talpha t = asum (visited j z v us).
    Proof.
      induction j as [|k IH]; intros z v us t us' H.
      - simpl in H. inversion H; subst. reflexivity.
      - pose proof H as H0. simpl in H. simpl visited.
        destruct (build_tree k z v us) as [[t1 us1]|] eqn:E1; [|discriminate].
        destruct (ts t1) eqn:Es1.
        + destruct (build_tree k (if v then zp t1 else zm t1) v us1) as [[t2 us2]|] eqn:E2;
            [|discriminate].
          destruct us2 as [|u us3]; [discriminate|]. inversion H; subst t us'.
          rewrite asum_app by (eapply visited_nonempty; eassumption).
          simpl. rewrite (IH _ _ _ _ _ E1), (IH _ _ _ _ _ E2). reflexivity.
        + inversion H; subst t us'. rewrite app_nil_r. exact (IH _ _ _ _ _ E1).
    Qed.

    Lemma build_tree_alpha_sum : forall j z v us t us',
      build_tree j z v us = Some (t, us') ->
      talpha t = asum (visited j z v us) /\
      visited j z v us <> [] /\ tnalpha t = length (visited j z v us).
    Proof.
      intros j z v us t us' H. split; [exact (build_tree_talpha _ _ _ _ _ _ H)|].
      split; [exact (visited_nonempty _ _ _ _ _ _ H)|exact (build_tree_tnalpha _ _ _ _ _ _ H)].
    Qed.
  End AlphaSum.

  (* Without any law on aadd (floating point): the sum is the pairwise (binary-tree) sum of the
     per-leaf terms, split at 2^(j-1). *)
  Fixpoint psum (j : nat) (l : list P) (dflt : A) : A :=
    match j with
    | O => match l with x :: _ => alpha1 x | [] => dflt end
    | S k => if length l <=? 2 ^ k then psum k l dflt
             else aadd (psum k (firstn (2 ^ k) l) dflt) (psum k (skipn (2 ^ k) l) dflt)
    end.

  Lemma build_tree_talpha_pairwise : forall j z v us t us' dflt,
    build_tree j z v us = Some (t, us') -> talpha t = psum j (visited j z v us) dflt.
  Proof.
    induction j as [|k IH]; intros z v us t us' dflt H.
    - simpl in H. inversion H; subst. reflexivity.
    - pose proof H as H0. simpl in H. simpl visited.
      destruct (build_tree k z v us) as [[t1 us1]|] eqn:E1; [|discriminate].
      destruct (build_tree_leaves _ _ _ _ _ _ E1) as (m1 & Hm1 & Hv1 & Hn1 & _ & _ & Hs1).
      assert (Hl1 : length (visited k z v us) = m1)
        by (rewrite Hv1, map_length, seq_length; reflexivity).
      destruct (ts t1) eqn:Es1.
      + destruct (build_tree k (if v then zp t1 else zm t1) v us1) as [[t2 us2]|] eqn:E2;
          [|discriminate].
        destruct us2 as [|u us3]; [discriminate|]. inversion H; subst t us'.
        destruct (build_tree_leaves _ _ _ _ _ _ E2) as (m2 & Hm2 & Hv2 & _).
        assert (Hl2 : length (visited k (if v then zp t1 else zm t1) v us1) = m2)
          by (rewrite Hv2, map_length, seq_length; reflexivity).
        specialize (Hs1 eq_refl).
        simpl psum. rewrite app_length, Hl1, Hl2.
        destruct (Nat.leb_spec (m1 + m2) (2 ^ k)) as [Hle|Hgt]; [lia|].
        rewrite <- Hs1.
        rewrite firstn_app, skipn_app, Hl1, Nat.sub_diag. simpl firstn. simpl skipn.
        rewrite app_nil_r.
        rewrite <- Hl1 at 1. rewrite firstn_all.
        rewrite <- Hl1 at 1. rewrite skipn_all. simpl app.
        simpl. rewrite (IH _ _ _ _ _ dflt E1), (IH _ _ _ _ _ dflt E2). reflexivity.
      + inversion H; subst t us'. rewrite app_nil_r. simpl psum. rewrite Hl1.
        destruct (Nat.leb_spec m1 (2 ^ k)) as [Hle|Hgt]; [|lia].
        exact (IH _ _ _ _ _ dflt E1).
  Qed.

  (* ---------------------------------------------------------------- (6) merge rule *)
  Lemma merge_rule : forall v u (t1 t2 : tree),
    tn (merge v u t1 t2) = tn t1 + tn t2 /\
    (take2 u (tn t1) (tn t2) = true -> cand (merge v u t1 t2) = cand t2) /\
    (take2 u (tn t1) (tn t2) = false -> cand (merge v u t1 t2) = cand t1).
  Proof.
    intros v u t1 t2. simpl. split; [reflexivity|]. split; intros ->; reflexivity.
  Qed.

  (* ---------------------------------------------------------------- (3) candidate *)
  Lemma build_tree_cand_in : forall j z v us t us',
    build_tree j z v us = Some (t, us') -> In (cand t) (visited j z v us).
  Proof.
    induction j as [|k IH]; intros z v us t us' H.
    - simpl in H. inversion H; subst. simpl. left; reflexivity.
    - simpl in H. simpl visited.
      destruct (build_tree k z v us) as [[t1 us1]|] eqn:E1; [|discriminate].
      destruct (ts t1) eqn:Es1.
      + destruct (build_tree k (if v then zp t1 else zm t1) v us1) as [[t2 us2]|] eqn:E2;
          [|discriminate].
        destruct us2 as [|u us3]; [discriminate|]. inversion H; subst t us'.
        apply in_or_app. simpl. destruct (take2 u (tn t1) (tn t2)).
        * right. exact (IH _ _ _ _ _ E2).
        * left. exact (IH _ _ _ _ _ E1).
      + inversion H; subst t us'. rewrite app_nil_r. exact (IH _ _ _ _ _ E1).
  Qed.

  (* the candidate as a trajectory point *)
  Lemma build_tree_cand_traj : forall j z v us t us',
    build_tree j z v us = Some (t, us') ->
    exists k, 1 <= k <= tnalpha t /\ cand t = traj v z k.
  Proof.
    intros j z v us t us' H.
    destruct (build_tree_leaves _ _ _ _ _ _ H) as (m & Hm & Hv & Hn & _).
    pose proof (build_tree_cand_in _ _ _ _ _ _ H) as Hin.
    rewrite Hv in Hin. apply in_map_iff in Hin. destruct Hin as (k & Hk & Hin).
    apply in_seq in Hin. exists k. split; [lia|]. symmetry; exact Hk.
  Qed.

  Lemma build_tree_cand_visited : forall j z v us t us',
    build_tree j z v us = Some (t, us') ->
    In (cand t) (visited j z v us) /\
    exists k, 1 <= k <= tnalpha t /\ cand t = traj v z k.
  Proof.
    intros j z v us t us' H. split; [exact (build_tree_cand_in _ _ _ _ _ _ H)|].
    exact (build_tree_cand_traj _ _ _ _ _ _ H).
  Qed.

  (* ---------------------------------------------------------------- use of the uniforms *)
  (* one uniform per merge: a call that visits m leaves consumes exactly m - 1 uniforms, a
     prefix of the supplied list *)
  Lemma build_tree_consumes : forall j z v us t us',
    build_tree j z v us = Some (t, us') ->
    exists used, us = used ++ us' /\ S (length used) = tnalpha t.
  Proof.
    induction j as [|k IH]; intros z v us t us' H.
    - simpl in H. inversion H; subst. exists []. split; reflexivity.
    - simpl in H.
      destruct (build_tree k z v us) as [[t1 us1]|] eqn:E1; [|discriminate].
      destruct (IH _ _ _ _ _ E1) as (w1 & Hw1 & Hl1).
      destruct (ts t1) eqn:Es1.
      + destruct (build_tree k (if v then zp t1 else zm t1) v us1) as [[t2 us2]|] eqn:E2;
          [|discriminate].
        destruct us2 as [|u us3]; [discriminate|]. inversion H; subst t us'.
        destruct (IH _ _ _ _ _ E2) as (w2 & Hw2 & Hl2).
        exists (w1 ++ w2 ++ [u]). split.
        * rewrite Hw1, Hw2, <- !app_assoc. reflexivity.
        * simpl. rewrite !app_length. simpl. lia.
      + inversion H; subst t us'. exists w1. split; assumption.
  Qed.

  (* enough uniforms: the call succeeds *)
  Lemma build_tree_total : forall j z v us,
    2 ^ j - 1 <= length us -> build_tree j z v us <> None.
  Proof.
    induction j as [|k IH]; intros z v us Hlen; simpl; [discriminate|].
    pose proof (pow2_pos k) as Hp. simpl in Hlen.
    destruct (build_tree k z v us) as [[t1 us1]|] eqn:E1.
    - destruct (ts t1) eqn:Es1; [|discriminate].
      destruct (build_tree_consumes _ _ _ _ _ _ E1) as (w1 & Hw1 & Hl1).
      destruct (build_tree_leaves _ _ _ _ _ _ E1) as (m1 & Hm1 & _ & Hn1 & _).
      assert (Hlen1 : length us = length w1 + length us1) by (rewrite Hw1, app_length; reflexivity).
      destruct (build_tree k (if v then zp t1 else zm t1) v us1) as [[t2 us2]|] eqn:E2.
      + destruct (build_tree_consumes _ _ _ _ _ _ E2) as (w2 & Hw2 & Hl2).
        destruct (build_tree_leaves _ _ _ _ _ _ E2) as (m2 & Hm2 & _ & Hn2 & _).
        assert (Hlen2 : length us1 = length w2 + length us2)
          by (rewrite Hw2, app_length; reflexivity).
        destruct us2 as [|u us3]; [simpl in Hlen2; lia|discriminate].
      + exfalso. refine (IH _ _ _ _ E2). lia.
    - exfalso. refine (IH _ _ _ _ E1). lia.
  Qed.

  (* the uniforms influence nothing but the candidate: shape, ends, counts, stop flag,
     acceptance statistic and the visited leaves are the same for any two supplies *)
  Lemma build_tree_uniforms_only_cand : forall j z v us1 us2 t1 r1 t2 r2,
    build_tree j z v us1 = Some (t1, r1) -> build_tree j z v us2 = Some (t2, r2) ->
    zm t1 = zm t2 /\ zp t1 = zp t2 /\ tn t1 = tn t2 /\ ts t1 = ts t2 /\
    talpha t1 = talpha t2 /\ tnalpha t1 = tnalpha t2 /\
    visited j z v us1 = visited j z v us2.
  Proof.
    induction j as [|k IH]; intros z v us1 us2 t1 r1 t2 r2 H1 H2.
    - simpl in H1, H2. inversion H1; inversion H2; subst. repeat split; reflexivity.
    - simpl in H1, H2. simpl visited.
      destruct (build_tree k z v us1) as [[a1 p1]|] eqn:Ea1; [|discriminate].
      destruct (build_tree k z v us2) as [[a2 p2]|] eqn:Ea2; [|discriminate].
      destruct (IH _ _ _ _ _ _ _ _ Ea1 Ea2) as (Azm & Azp & Atn & Ats & Aal & Ana & Avis).
      rewrite <- Ats in *. rewrite <- Azm, <- Azp in *.
      destruct (ts a1) eqn:Es1.
      + destruct (build_tree k (if v then zp a1 else zm a1) v p1) as [[b1 q1]|] eqn:Eb1;
          [|discriminate].
        destruct (build_tree k (if v then zp a1 else zm a1) v p2) as [[b2 q2]|] eqn:Eb2;
          [|discriminate].
        destruct q1 as [|u1 q1]; [discriminate|]. destruct q2 as [|u2 q2]; [discriminate|].
        inversion H1; inversion H2; subst.
        destruct (IH _ _ _ _ _ _ _ _ Eb1 Eb2) as (Bzm & Bzp & Btn & Bts & Bal & Bna & Bvis).
        simpl. repeat split; destruct v; congruence.
      + inversion H1; inversion H2; subst. rewrite Avis.
        repeat split; congruence.
  Qed.

  (* ---------------------------------------------------------------- (3) admissible candidate *)
  (* okU: the uniforms actually supplied (e.g. 0 <= u < 1); the two laws of take2 are required
     for those only *)
  Section Take.
    Variable okU : U -> Prop.
    Hypothesis Htake0 : forall u n1, okU u -> take2 u n1 0 = false.
    Hypothesis Htake1 : forall u n2, okU u -> take2 u 0 (S n2) = true.

    Lemma build_tree_cand_adm : forall j z v us t us',
      Forall okU us ->
      build_tree j z v us = Some (t, us') -> 0 < tn t -> admissible (cand t) = true.
    Proof.
      induction j as [|k IH]; intros z v us t us' Hok H Hn.
      - simpl in H. inversion H; subst. simpl in *. unfold admissible.
        destruct (flt logu (joint (leap v z))); [reflexivity|lia].
      - simpl in H.
        destruct (build_tree k z v us) as [[t1 us1]|] eqn:E1; [|discriminate].
        destruct (ts t1) eqn:Es1.
        + destruct (build_tree k (if v then zp t1 else zm t1) v us1) as [[t2 us2]|] eqn:E2;
            [|discriminate].
          destruct us2 as [|u us3]; [discriminate|]. inversion H; subst t us'.
          destruct (build_tree_consumes _ _ _ _ _ _ E1) as (w1 & Hw1 & _).
          destruct (build_tree_consumes _ _ _ _ _ _ E2) as (w2 & Hw2 & _).
          assert (Hok1 : Forall okU us1) by (rewrite Hw1 in Hok; apply Forall_app in Hok; exact (proj2 Hok)).
          assert (Hu : okU u).
          { rewrite Hw2 in Hok1. apply Forall_app in Hok1. destruct Hok1 as [_ Hok1].
            exact (Forall_inv Hok1). }
          simpl in *. destruct (take2 u (tn t1) (tn t2)) eqn:Et.
          * apply (IH _ _ _ _ _ Hok1 E2). destruct (tn t2) as [|n2]; [|lia].
            rewrite (Htake0 _ _ Hu) in Et. discriminate.
          * apply (IH _ _ _ _ _ Hok E1). destruct (tn t1) as [|n1]; [|lia].
            destruct (tn t2) as [|n2]; [lia|]. rewrite (Htake1 _ _ Hu) in Et. discriminate.
        + inversion H; subst t us'. exact (IH _ _ _ _ _ Hok E1 Hn).
    Qed.

    Lemma build_tree_cand : forall j z v us t us',
      Forall okU us ->
      build_tree j z v us = Some (t, us') ->
      In (cand t) (visited j z v us) /\ (0 < tn t -> admissible (cand t) = true).
    Proof.
      intros j z v us t us' Hok H. split; [exact (build_tree_cand_in _ _ _ _ _ _ H)|].
      exact (build_tree_cand_adm _ _ _ _ _ _ Hok H).
    Qed.
  End Take.

  (* ---------------------------------------------------------------- the doubling loop *)
  (* one iteration of the loop body, as the model computes it *)
  Definition step_acc (st : nst) (ac : U) (t : tree) : bool :=
    ts t && accept_top ac (tn t) (ntot st).
  Definition step_st (st : nst) (v : bool) (ac : U) (t : tree) : nst :=
    {| cur := if step_acc st ac t then cand t else cur st;
       lo := if v then lo st else zm t;
       hi := if v then zp t else hi st;
       ntot := ntot st + tn t; depth := S (depth st) |}.
  Definition step_rec (st : nst) (v : bool) (ac : U) (t : tree) : dbl :=
    {| d_dir := v; d_tree := t; d_accepted := step_acc st ac t |}.
  Definition step_continue (st : nst) (v : bool) (t : tree) : bool :=
    ts t && noturn (if v then lo st else zm t) (if v then zp t else hi st).

  (* the successful runs of `doublings` on uniforms satisfying okU, as a relation: start state,
     records, final state *)
  Section RunRel.
  Variable okU : U -> Prop.

  Inductive run : nst -> list dbl -> nst -> Prop :=
  | run_stop : forall (st : nst) (v : bool) (ac : U) (t : tree) (us us' : list U),
      okU ac -> Forall okU us ->
      build_tree (depth st) (if v then hi st else lo st) v us = Some (t, us') ->
      step_continue st v t = false ->
      run st [step_rec st v ac t] (step_st st v ac t)
  | run_more : forall (st : nst) (v : bool) (ac : U) (t : tree) (us us' : list U) recs stf,
      okU ac -> Forall okU us ->
      build_tree (depth st) (if v then hi st else lo st) v us = Some (t, us') ->
      step_continue st v t = true ->
      run (step_st st v ac t) recs stf ->
      run st (step_rec st v ac t :: recs) stf.

  Lemma doublings_run : forall fuel st dirs tus accs stf recs dr tr ar,
    Forall okU tus -> Forall okU accs ->
    doublings fuel st dirs tus accs = Some (stf, recs, dr, tr, ar) -> run st recs stf.
  Proof.
    induction fuel as [|f IH]; intros st dirs tus accs stf recs dr tr ar Ht Ha H; [discriminate|].
    simpl in H.
    destruct dirs as [|v dirs']; [discriminate|]. destruct accs as [|ac accs']; [discriminate|].
    destruct (build_tree (depth st) (if v then hi st else lo st) v tus) as [[t tus']|] eqn:Eb;
      [|discriminate].
    assert (Hac : okU ac) by exact (Forall_inv Ha).
    assert (Ha' : Forall okU accs') by exact (Forall_inv_tail Ha).
    assert (Ht' : Forall okU tus').
    { destruct (build_tree_consumes _ _ _ _ _ _ Eb) as (w & Hw & _).
      rewrite Hw in Ht. apply Forall_app in Ht. tauto. }
    change (ts t && noturn (if v then lo st else zm t) (if v then zp t else hi st))
      with (step_continue st v t) in H.
    destruct (step_continue st v t) eqn:Ec.
    - match type of H with
      | match doublings f ?s _ _ _ with _ => _ end = _ =>
          change s with (step_st st v ac t) in H
      end.
      destruct (doublings f (step_st st v ac t) dirs' tus' accs')
        as [[[[[stf' recs'] dr'] tr'] ar']|] eqn:Ed; [|discriminate].
      inversion H; subst.
      exact (run_more st v ac t _ _ _ _ Hac Ht Eb Ec (IH _ _ _ _ _ _ _ _ _ Ht' Ha' Ed)).
    - inversion H; subst.
      exact (run_stop st v ac t _ _ Hac Ht Eb Ec).
  Qed.

  (* leapfrog steps taken in direction w / admissible points found, over a list of records *)
  Definition steps (w : bool) (recs : list dbl) : nat :=
    list_sum (map (fun d => if Bool.eqb (d_dir d) w then tnalpha (d_tree d) else 0) recs).
  Definition tnsum (recs : list dbl) : nat := list_sum (map (fun d => tn (d_tree d)) recs).

  Lemma steps_cons w d l :
    steps w (d :: l) = (if Bool.eqb (d_dir d) w then tnalpha (d_tree d) else 0) + steps w l.
  Proof. reflexivity. Qed.

  Lemma steps_app w l1 l2 : steps w (l1 ++ l2) = steps w l1 + steps w l2.
  Proof. unfold steps. rewrite map_app, list_sum_app. reflexivity. Qed.

  Lemma steps_firstn_le w recs i d :
    nth_error recs i = Some d ->
    steps w (firstn i recs) + (if Bool.eqb (d_dir d) w then tnalpha (d_tree d) else 0)
      <= steps w recs.
  Proof.
    intros H. rewrite (nth_error_split_ _ _ _ H) at 2.
    rewrite steps_app, steps_cons. lia.
  Qed.

  Lemma nth_error_single {X} (x d : X) i : nth_error [x] i = Some d -> i = 0 /\ d = x.
  Proof.
    destruct i as [|i]; simpl; intros H.
    - inversion H; auto.
    - destruct i; discriminate.
  Qed.

  (* one step keeps the two ends on the line through z0 *)
  Lemma step_line : forall z0 (st : nst) (v : bool) (ac : U) (t : tree) us us' a b,
    lo st = traj false z0 a -> hi st = traj true z0 b ->
    build_tree (depth st) (if v then hi st else lo st) v us = Some (t, us') ->
    lo (step_st st v ac t) = traj false z0 (a + (if v then 0 else tnalpha t)) /\
    hi (step_st st v ac t) = traj true z0 (b + (if v then tnalpha t else 0)) /\
    build_tree (depth st) (traj v z0 (if v then b else a)) v us = Some (t, us').
  Proof.
    intros z0 st v ac t us us' a b Hlo Hhi Hb.
    assert (Hb' : build_tree (depth st) (traj v z0 (if v then b else a)) v us = Some (t, us')).
    { destruct v; [rewrite <- Hhi|rewrite <- Hlo]; exact Hb. }
    destruct (build_tree_leaves _ _ _ _ _ _ Hb') as (m & _ & _ & Hn & Hf & _).
    rewrite traj_traj in Hf. subst m. unfold far_end in Hf.
    destruct v; simpl.
    - rewrite Hf, Hlo. repeat split; try exact Hb'; f_equal; lia.
    - rewrite Hf, Hhi. repeat split; try exact Hb'; f_equal; lia.
  Qed.

  (* the whole run: ends, the tree of every doubling, the U-turn test between doublings *)
  Lemma run_line : forall z0 st recs stf, run st recs stf ->
    forall a b, lo st = traj false z0 a -> hi st = traj true z0 b ->
    lo stf = traj false z0 (a + steps false recs) /\
    hi stf = traj true z0 (b + steps true recs) /\
    (forall i d, nth_error recs i = Some d ->
       exists us us', Forall okU us /\
         build_tree (depth st + i)
           (traj (d_dir d) z0 ((if d_dir d then b else a) + steps (d_dir d) (firstn i recs)))
           (d_dir d) us = Some (d_tree d, us')) /\
    (forall i, S i < length recs ->
       noturn (traj false z0 (a + steps false (firstn (S i) recs)))
              (traj true z0 (b + steps true (firstn (S i) recs))) = true).
  Proof.
    intros z0 st recs stf Hrun.
    induction Hrun as [st v ac t us us' Hoa Hou Hb Hc|st v ac t us us' recs stf Hoa Hou Hb Hc Hrun IH];
      intros a b Hlo Hhi;
      destruct (step_line z0 st v ac t us us' a b Hlo Hhi Hb) as (Hlo' & Hhi' & Hb').
    - split; [|split; [|split]].
      + rewrite Hlo'. f_equal. destruct v; unfold steps, step_rec; simpl; lia.
      + rewrite Hhi'. f_equal. destruct v; unfold steps, step_rec; simpl; lia.
      + intros i d Hnth. apply nth_error_single in Hnth. destruct Hnth as [-> ->].
        exists us, us'. split; [exact Hou|]. simpl firstn. simpl d_dir. simpl d_tree.
        unfold steps; simpl. rewrite !Nat.add_0_r. exact Hb'.
      + simpl. intros i Hi. lia.
    - destruct (IH _ _ Hlo' Hhi') as (Hlof & Hhif & Htrees & Hnt).
      split; [|split; [|split]].
      + rewrite Hlof. f_equal. destruct v; unfold steps, step_rec; simpl; lia.
      + rewrite Hhif. f_equal. destruct v; unfold steps, step_rec; simpl; lia.
      + intros [|i] d Hnth.
        * simpl in Hnth. inversion Hnth; subst d.
          exists us, us'. split; [exact Hou|]. simpl firstn. simpl d_dir. simpl d_tree.
          unfold steps; simpl. rewrite !Nat.add_0_r. exact Hb'.
        * simpl in Hnth. destruct (Htrees _ _ Hnth) as (us0 & us0' & Hou0 & Hb0).
          exists us0, us0'. split; [exact Hou0|]. simpl firstn. rewrite steps_cons. simpl d_dir at 3.
          simpl d_tree at 1.
          replace (depth st + S i) with (depth (step_st st v ac t) + i) by (simpl; lia).
          rewrite <- Hb0. f_equal. f_equal.
          destruct (d_dir d), v; simpl; lia.
      + intros [|i] Hi.
        * unfold step_continue in Hc. apply andb_true_iff in Hc. destruct Hc as [_ Hc].
          change (if v then lo st else zm t) with (lo (step_st st v ac t)) in Hc.
          change (if v then zp t else hi st) with (hi (step_st st v ac t)) in Hc.
          rewrite Hlo', Hhi' in Hc.
          assert (E1 : a + steps false (firstn 1 (step_rec st v ac t :: recs))
                       = a + (if v then 0 else tnalpha t))
            by (destruct v; unfold steps, step_rec; simpl; lia).
          assert (E2 : b + steps true (firstn 1 (step_rec st v ac t :: recs))
                       = b + (if v then tnalpha t else 0))
            by (destruct v; unfold steps, step_rec; simpl; lia).
          rewrite E1, E2. exact Hc.
        * simpl in Hi. assert (Hi' : S i < length recs) by lia.
          specialize (Hnt i Hi').
          assert (E1 : a + steps false (firstn (S (S i)) (step_rec st v ac t :: recs))
                       = a + (if v then 0 else tnalpha t) + steps false (firstn (S i) recs)).
          { change (firstn (S (S i)) (step_rec st v ac t :: recs))
              with (step_rec st v ac t :: firstn (S i) recs).
            rewrite steps_cons. destruct v; simpl; lia. }
          assert (E2 : b + steps true (firstn (S (S i)) (step_rec st v ac t :: recs))
                       = b + (if v then tnalpha t else 0) + steps true (firstn (S i) recs)).
          { change (firstn (S (S i)) (step_rec st v ac t :: recs))
              with (step_rec st v ac t :: firstn (S i) recs).
            rewrite steps_cons. destruct v; simpl; lia. }
          rewrite E1, E2. exact Hnt.
  Qed.

  (* the current point is the candidate of the last accepted doubling, if any *)
  Lemma run_cur : forall st recs stf, run st recs stf ->
    cur stf = match find d_accepted (rev recs) with
              | Some d => cand (d_tree d)
              | None => cur st
              end.
  Proof.
    intros st recs stf Hrun.
    induction Hrun as [st v ac t us us' Hoa Hou Hb Hc|st v ac t us us' recs stf Hoa Hou Hb Hc Hrun IH].
    - simpl. destruct (step_acc st ac t); reflexivity.
    - simpl rev. rewrite find_app_, IH.
      destruct (find d_accepted (rev recs)); [reflexivity|].
      simpl. destruct (step_acc st ac t); reflexivity.
  Qed.

  (* counters, the acceptance rule of every doubling, and the shape of the loop *)
  Lemma run_shape : forall st recs stf, run st recs stf ->
    depth stf = depth st + length recs /\
    ntot stf = ntot st + tnsum recs /\
    (forall i d, nth_error recs i = Some d ->
       exists ac, okU ac /\ d_accepted d =
         ts (d_tree d) && accept_top ac (tn (d_tree d)) (ntot st + tnsum (firstn i recs))) /\
    (exists pre d, recs = pre ++ [d] /\
       (forall d', In d' pre -> ts (d_tree d') = true) /\
       ts (d_tree d) && noturn (lo stf) (hi stf) = false).
  Proof.
    intros st recs stf Hrun.
    induction Hrun as [st v ac t us us' Hoa Hou Hb Hc|st v ac t us us' recs stf Hoa Hou Hb Hc Hrun IH].
    - split; [simpl; lia|]. split; [unfold tnsum; simpl; lia|]. split.
      + intros i d Hnth. apply nth_error_single in Hnth. destruct Hnth as [-> ->].
        exists ac. split; [exact Hoa|]. unfold tnsum; simpl. rewrite Nat.add_0_r. reflexivity.
      + exists [], (step_rec st v ac t). split; [reflexivity|]. split; [intros d' []|].
        exact Hc.
    - destruct IH as (Hd & Hn & Hacc & (pre & dl & Hrecs & Hpre & Hlast)).
      split; [rewrite Hd; simpl; lia|].
      split; [rewrite Hn; unfold tnsum; simpl; lia|]. split.
      + intros [|i] d Hnth.
        * simpl in Hnth. inversion Hnth; subst d. exists ac. split; [exact Hoa|].
          unfold tnsum; simpl. rewrite Nat.add_0_r. reflexivity.
        * simpl in Hnth. destruct (Hacc _ _ Hnth) as (ac0 & Hoa0 & Hac0). exists ac0.
          split; [exact Hoa0|]. rewrite Hac0. f_equal. f_equal. unfold tnsum; simpl. lia.
      + exists (step_rec st v ac t :: pre), dl. split; [rewrite Hrecs; reflexivity|].
        split; [|exact Hlast].
        intros d' [<-|Hin]; [|exact (Hpre _ Hin)].
        unfold step_continue in Hc. apply andb_true_iff in Hc. destruct Hc as [Hc _]. exact Hc.
  Qed.

  End RunRel.

  (* ---- consequences for a transition started at z0 ---- *)
  Definition init (z0 : P) : nst := {| cur := z0; lo := z0; hi := z0; ntot := 1; depth := 0 |}.

  Lemma Forall_trivial {X} (l : list X) : Forall (fun _ => True) l.
  Proof. apply Forall_forall. intros; exact I. Qed.

  Lemma transition_run_ok : forall (okU : U -> Prop) fuel z0 dirs tus accs st recs dr tr ar,
    Forall okU tus -> Forall okU accs ->
    transition fuel z0 dirs tus accs = Some (st, recs, dr, tr, ar) -> run okU (init z0) recs st.
  Proof. intros okU fuel z0 dirs tus accs st recs dr tr ar Ht Ha H. 
    exact (doublings_run okU _ _ _ _ _ _ _ _ _ _ Ht Ha H).
  Qed.

  Lemma transition_run : forall fuel z0 dirs tus accs st recs dr tr ar,
    transition fuel z0 dirs tus accs = Some (st, recs, dr, tr, ar) ->
    run (fun _ => True) (init z0) recs st.
  Proof.
    intros fuel z0 dirs tus accs st recs dr tr ar H.
    exact (transition_run_ok (fun _ => True) _ _ _ _ _ _ _ _ _ _
             (Forall_trivial tus) (Forall_trivial accs) H).
  Qed.

  (* the trajectory is one line through z0; every doubling extends it at one end *)
  Lemma run_init_line : forall okU z0 st recs, run okU (init z0) recs st ->
    lo st = traj false z0 (steps false recs) /\
    hi st = traj true z0 (steps true recs) /\
    (forall i d, nth_error recs i = Some d ->
       let v := d_dir d in
       let s := steps v (firstn i recs) in
       exists us us', Forall okU us /\
         build_tree i (traj v z0 s) v us = Some (d_tree d, us') /\
         visited i (traj v z0 s) v us = map (traj v z0) (seq (1 + s) (tnalpha (d_tree d))) /\
         far_end v (d_tree d) = traj v z0 (s + tnalpha (d_tree d)) /\
         near_end v (d_tree d) = traj v z0 (s + 1)) /\
    (forall i, S i < length recs ->
       noturn (traj false z0 (steps false (firstn (S i) recs)))
              (traj true z0 (steps true (firstn (S i) recs))) = true).
  Proof.
    intros okU z0 st recs H.
    destruct (run_line okU z0 _ _ _ H 0 0 eq_refl eq_refl) as (Hlo & Hhi & Htrees & Hnt).
    split; [exact Hlo|]. split; [exact Hhi|]. split; [|exact Hnt].
    intros i d Hnth v s. destruct (Htrees _ _ Hnth) as (us & us' & Hou & Hb).
    simpl in Hb. replace (if d_dir d then 0 else 0) with 0 in Hb by (destruct (d_dir d); reflexivity).
    simpl in Hb. fold v in Hb. fold s in Hb.
    exists us, us'. split; [exact Hou|]. split; [exact Hb|].
    destruct (build_tree_leaves _ _ _ _ _ _ Hb) as (m & _ & Hv & Hn & Hf & Hne & _).
    subst m. rewrite Hv, Hf, Hne, map_traj_shift, !traj_traj.
    repeat split; f_equal; lia.
  Qed.

  Lemma transition_line : forall fuel z0 dirs tus accs st recs dr tr ar,
    transition fuel z0 dirs tus accs = Some (st, recs, dr, tr, ar) ->
    lo st = traj false z0 (steps false recs) /\
    hi st = traj true z0 (steps true recs) /\
    (forall i d, nth_error recs i = Some d ->
       let v := d_dir d in
       let s := steps v (firstn i recs) in
       exists us us',
         build_tree i (traj v z0 s) v us = Some (d_tree d, us') /\
         visited i (traj v z0 s) v us = map (traj v z0) (seq (1 + s) (tnalpha (d_tree d))) /\
         far_end v (d_tree d) = traj v z0 (s + tnalpha (d_tree d)) /\
         near_end v (d_tree d) = traj v z0 (s + 1)) /\
    (forall i, S i < length recs ->
       noturn (traj false z0 (steps false (firstn (S i) recs)))
              (traj true z0 (steps true (firstn (S i) recs))) = true).
  Proof.
    intros fuel z0 dirs tus accs st recs dr tr ar H.
    apply transition_run in H.
    destruct (run_init_line _ _ _ _ H) as (Hlo & Hhi & Htrees & Hnt).
    split; [exact Hlo|]. split; [exact Hhi|]. split; [|exact Hnt].
    intros i d Hnth v s. destruct (Htrees _ _ Hnth) as (us & us' & _ & Hrest).
    exists us, us'. exact Hrest.
  Qed.

  Lemma transition_shape : forall fuel z0 dirs tus accs st recs dr tr ar,
    transition fuel z0 dirs tus accs = Some (st, recs, dr, tr, ar) ->
    depth st = length recs /\
    ntot st = 1 + tnsum recs /\
    (exists pre d, recs = pre ++ [d] /\
       (forall d', In d' pre -> ts (d_tree d') = true) /\
       ts (d_tree d) && noturn (lo st) (hi st) = false) /\
    (forall i d, nth_error recs i = Some d ->
       1 <= tnalpha (d_tree d) <= 2 ^ i /\
       (ts (d_tree d) = true -> tnalpha (d_tree d) = 2 ^ i) /\
       exists ac, d_accepted d =
         ts (d_tree d) && accept_top ac (tn (d_tree d)) (1 + tnsum (firstn i recs))).
  Proof.
    intros fuel z0 dirs tus accs st recs dr tr ar H.
    pose proof (transition_line _ _ _ _ _ _ _ _ _ _ H) as (_ & _ & Htrees & _).
    apply transition_run in H.
    destruct (run_shape _ _ _ _ H) as (Hd & Hn & Hacc & Hlast).
    split; [exact Hd|]. split; [exact Hn|]. split; [exact Hlast|].
    intros i d Hnth.
    destruct (Htrees _ _ Hnth) as (us & us' & Hb & _).
    destruct (build_tree_leaves _ _ _ _ _ _ Hb) as (m & Hm & _ & Hnm & _ & _ & Hs).
    subst m. split; [exact Hm|]. split; [exact Hs|].
    destruct (Hacc _ _ Hnth) as (ac & _ & Hac). exists ac. exact Hac.
  Qed.

  Lemma transition_cur : forall fuel z0 dirs tus accs st recs dr tr ar,
    transition fuel z0 dirs tus accs = Some (st, recs, dr, tr, ar) ->
    cur st = match find d_accepted (rev recs) with
             | Some d => cand (d_tree d)
             | None => z0
             end.
  Proof.
    intros fuel z0 dirs tus accs st recs dr tr ar H.
    apply transition_run in H. exact (run_cur _ _ _ _ H).
  Qed.

  Lemma transition_accepted_not_stopped : forall fuel z0 dirs tus accs st recs dr tr ar,
    transition fuel z0 dirs tus accs = Some (st, recs, dr, tr, ar) ->
    forall d, In d recs -> d_accepted d = true -> ts (d_tree d) = true.
  Proof.
    intros fuel z0 dirs tus accs st recs dr tr ar H d Hin Ha.
    apply transition_run in H. destruct (run_shape _ _ _ _ H) as (_ & _ & Hacc & _).
    apply In_nth_error in Hin. destruct Hin as (i & Hnth).
    destruct (Hacc _ _ Hnth) as (ac & _ & Hac). rewrite Hac in Ha.
    apply andb_true_iff in Ha. exact (proj1 Ha).
  Qed.

  Lemma transition_cur_cases : forall fuel z0 dirs tus accs st recs dr tr ar,
    transition fuel z0 dirs tus accs = Some (st, recs, dr, tr, ar) ->
    cur st = z0 \/ exists d, In d recs /\ d_accepted d = true /\ cur st = cand (d_tree d).
  Proof.
    intros fuel z0 dirs tus accs st recs dr tr ar H.
    rewrite (transition_cur _ _ _ _ _ _ _ _ _ _ H).
    destruct (find d_accepted (rev recs)) as [d|] eqn:Ef; [right|left; reflexivity].
    apply find_some in Ef. destruct Ef as [Hin Ha]. apply in_rev in Hin.
    exists d. auto.
  Qed.

  Lemma transition_never_from_stopped : forall fuel z0 dirs tus accs st recs dr tr ar,
    transition fuel z0 dirs tus accs = Some (st, recs, dr, tr, ar) ->
    (forall d, In d recs -> d_accepted d = true -> ts (d_tree d) = true) /\
    cur st = match find d_accepted (rev recs) with
             | Some d => cand (d_tree d)
             | None => z0
             end.
  Proof.
    intros fuel z0 dirs tus accs st recs dr tr ar H.
    split; [exact (transition_accepted_not_stopped _ _ _ _ _ _ _ _ _ _ H)|].
    exact (transition_cur _ _ _ _ _ _ _ _ _ _ H).
  Qed.

  (* every candidate ever recorded is a point of the trajectory, on the side of its doubling *)
  Lemma transition_cand_traj : forall fuel z0 dirs tus accs st recs dr tr ar,
    transition fuel z0 dirs tus accs = Some (st, recs, dr, tr, ar) ->
    forall d, In d recs ->
    exists k, 1 <= k <= steps (d_dir d) recs /\ cand (d_tree d) = traj (d_dir d) z0 k.
  Proof.
    intros fuel z0 dirs tus accs st recs dr tr ar H d Hin.
    pose proof (transition_line _ _ _ _ _ _ _ _ _ _ H) as (_ & _ & Htrees & _).
    apply In_nth_error in Hin. destruct Hin as (i & Hnth).
    destruct (Htrees _ _ Hnth) as (us & us' & Hb & _).
    destruct (build_tree_cand_traj _ _ _ _ _ _ Hb) as (k & Hk & Hck).
    rewrite traj_traj in Hck.
    exists (k + steps (d_dir d) (firstn i recs)). split; [|exact Hck].
    pose proof (steps_firstn_le (d_dir d) recs i d Hnth) as Hle.
    rewrite Bool.eqb_reflx in Hle. lia.
  Qed.

  Section TopLevel.
    Variable okU : U -> Prop.
    Hypothesis Htake0 : forall u n1, okU u -> take2 u n1 0 = false.
    Hypothesis Htake1 : forall u n2, okU u -> take2 u 0 (S n2) = true.
    Hypothesis Hacc0 : forall u n, okU u -> accept_top u 0 n = false.

    Lemma transition_accepted : forall fuel z0 dirs tus accs st recs dr tr ar,
      Forall okU tus -> Forall okU accs ->
      transition fuel z0 dirs tus accs = Some (st, recs, dr, tr, ar) ->
      forall d, In d recs -> d_accepted d = true ->
      ts (d_tree d) = true /\ 0 < tn (d_tree d) /\
      exists k, 1 <= k <= steps (d_dir d) recs /\
        cand (d_tree d) = traj (d_dir d) z0 k /\ admissible (cand (d_tree d)) = true.
    Proof.
      intros fuel z0 dirs tus accs st recs dr tr ar Hot Hoa H d Hin Ha.
      destruct (transition_cand_traj _ _ _ _ _ _ _ _ _ _ H d Hin) as (k & Hk & Hck).
      apply (transition_run_ok okU) in H; [|assumption|assumption].
      pose proof (run_init_line _ _ _ _ H) as (_ & _ & Htrees & _).
      destruct (run_shape _ _ _ _ H) as (_ & _ & Hacc & _).
      apply In_nth_error in Hin. destruct Hin as (i & Hnth).
      destruct (Hacc _ _ Hnth) as (ac & Hoac & Hac). rewrite Hac in Ha.
      apply andb_true_iff in Ha. destruct Ha as [Hs Ha].
      assert (Hn : 0 < tn (d_tree d)).
      { destruct (tn (d_tree d)); [rewrite (Hacc0 _ _ Hoac) in Ha; discriminate|lia]. }
      split; [exact Hs|]. split; [exact Hn|].
      destruct (Htrees _ _ Hnth) as (us & us' & Hou & Hb & _).
      exists k. split; [exact Hk|]. split; [exact Hck|].
      exact (build_tree_cand_adm okU Htake0 Htake1 _ _ _ _ _ _ Hou Hb Hn).
    Qed.

    Lemma transition_next_state : forall fuel z0 dirs tus accs st recs dr tr ar,
      Forall okU tus -> Forall okU accs ->
      transition fuel z0 dirs tus accs = Some (st, recs, dr, tr, ar) ->
      cur st = z0 \/
      exists v k, 1 <= k <= steps v recs /\ cur st = traj v z0 k /\ admissible (cur st) = true.
    Proof.
      intros fuel z0 dirs tus accs st recs dr tr ar Hot Hoa H.
      destruct (transition_cur_cases _ _ _ _ _ _ _ _ _ _ H) as [Hc|(d & Hin & Ha & Hc)];
        [left; exact Hc|right].
      destruct (transition_accepted _ _ _ _ _ _ _ _ _ _ Hot Hoa H d Hin Ha)
        as (_ & _ & k & Hk & Hck & Hadm).
      exists (d_dir d), k. rewrite Hc. auto.
    Qed.
  End TopLevel.
End NUTSProofs.
