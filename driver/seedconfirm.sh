#!/bin/bash
# seedconfirm.sh <worktree> <mK>...  — confirms seeded changes in the scratch worktree only (no use of /repo):
# the demo passes on the unchanged code, fails with the change, and the existing suite still passes with the change.
set -u
WT=$1; shift
export CARGO_TARGET_DIR=$WT/target CARGO_NET_OFFLINE=true
cd $WT || exit 2
for M in "$@"; do
  D=$WT/_mutation/$M
  git checkout -q -- . ; rm -f tests/verif_demo.rs
  cp $D/demo.rs tests/verif_demo.rs
  a=$(cargo test --offline -j 5 --test verif_demo 2>&1 | grep -E "^test result|error(\[|:)" | head -2 | tr '\n' ' ')
  git apply $D/patch.diff || { echo "$M PATCH DOES NOT APPLY"; continue; }
  b=$(timeout 600 cargo test --offline -j 5 --test verif_demo 2>&1 | grep -E "^test result|error(\[|:)" | head -2 | tr '\n' ' ')
  rm -f tests/verif_demo.rs
  c=$(cargo test --offline -j 5 --lib --tests 2>&1 | grep -E "^test result" | head -4 | sed 's/; [0-9]* measured.*//' | tr '\n' ' ')
  git checkout -q -- .
  echo "$(basename $WT)-$M | unchanged: $a | changed: $b | suite: $c"
done
