(* Exact-rational evaluation of the finite-state theory of Model/MH.v (kernel K) and Model/Ergodic.v (push, l1, Doeblin)
   on a table target: states 0..N-1, unnormalised weights w, proposal matrix q (rows sum to one).  Kernels are matrices
   (list of rows) so that powers are computed once; the real-number objects of the theorems are reached through the link
   theorems of Proofs/ErgodicEval.v (Q2R of every entry is the real kernel's entry).  Definitions only. *)
From MiniMcmc Require Export Base.Num.
From Coq Require Import Qminmax Qabs.
Open Scope Q_scope.

Definition qadd (a b : Q) : Q := Qred (a + b).
Definition qmul (a b : Q) : Q := Qred (a * b).
Definition qsuml (l : list Q) : Q := fold_right qadd 0 l.
Definition qnth (l : list Q) (i : nat) : Q := nth i l 0.
Definition mnth (m : list (list Q)) (i j : nat) : Q := qnth (nth i m []) j.

Section Table.
  Variable N : nat.
  Variable w : list Q.                 (* unnormalised target weights, > 0 *)
  Variable q : list (list Q).          (* proposal matrix *)

  (* min(1, w y q y x / (w x q x y)) *)
  Definition accQ (x y : nat) : Q := Qmin 1 (Qred (qnth w y * mnth q y x / (qnth w x * mnth q x y))).
  Definition KoffQ (x y : nat) : Q := if Nat.eqb x y then 0 else qmul (mnth q x y) (accQ x y).
  Definition KQ (x y : nat) : Q :=
    qadd (KoffQ x y) (if Nat.eqb x y then Qred (1 - qsuml (map (KoffQ x) (seq 0 N))) else 0).
  (* the kernel as a matrix *)
  Definition Kmat : list (list Q) := map (fun x => map (KQ x) (seq 0 N)) (seq 0 N).
End Table.

(* row vector times matrix: the law after one step (Model/Ergodic.v push) *)
Definition vpush (N : nat) (P : list (list Q)) (mu : list Q) : list Q :=
  map (fun y => qsuml (map (fun x => qmul (qnth mu x) (mnth P x y)) (seq 0 N))) (seq 0 N).
Fixpoint vpushn (N : nat) (P : list (list Q)) (n : nat) (mu : list Q) : list Q :=
  match n with O => mu | S k => vpush N P (vpushn N P k mu) end.
(* matrix product and power: the m-step kernel *)
Definition mmul (N : nat) (A B : list (list Q)) : list (list Q) := map (fun row => vpush N B row) A.
Definition ident (N : nat) : list (list Q) := map (fun x => map (fun y => if Nat.eqb x y then 1 else 0) (seq 0 N)) (seq 0 N).
Fixpoint mpow (N : nat) (P : list (list Q)) (m : nat) : list (list Q) :=
  match m with O => ident N | S k => mmul N P (mpow N P k) end.
Definition l1Q (N : nat) (mu nu : list Q) : Q := qsuml (map (fun x => Qabs (qnth mu x - qnth nu x)) (seq 0 N)).
(* the largest delta with P x y >= delta for all x y *)
Definition minorQ (P : list (list Q)) : Q :=
  fold_right Qmin 1 (concat P).
Definition normalise (w : list Q) : list Q := let s := qsuml w in map (fun x => Qred (x / s)) w.
Fixpoint qpow (a : Q) (n : nat) : Q := match n with O => 1 | S k => qmul a (qpow a k) end.

(* evaluation for the C06 table cases: integer weights ws, integer proposal weights qs (row-normalised here), block length m,
   number of blocks n, start state s.  Output (rationals as num/den): the stationary law pi; delta_m = min entry of K^m;
   the Doeblin bound (1 - N delta_m)^n * l1(e_s, pi); the exact l1 distance of the law after m*n steps from pi;
   and 1/0 whether pi K = pi holds exactly *)
Definition ergo_eval (ws : list Z) (qs : list (list Z)) (m n s : nat) : list Z :=
  let N := length ws in
  let w := map inject_Z ws in
  let q := map (fun row => normalise (map inject_Z row)) qs in
  let P := Kmat N w q in
  let pi := normalise w in
  let Pm := mpow N P m in
  let delta := minorQ Pm in
  let e := map (fun x => if Nat.eqb x s then 1 else 0) (seq 0 N) in
  let c := Qred (1 - inject_Z (Z.of_nat N) * delta) in
  let bound := qmul (qpow c n) (l1Q N e pi) in
  let dist := l1Q N (vpushn N Pm n e) pi in
  let stat := if forallb (fun y => Qeq_bool (qnth (vpush N P pi) y) (qnth pi y)) (seq 0 N) then 1%Z else 0%Z in
  qouts pi ++ qout delta ++ qout bound ++ qout dist ++ [stat; if Qle_bool dist bound then 1%Z else 0%Z].
