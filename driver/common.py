"""Shared machinery for the correspondence checks: Coq build / evaluation,
harness build / invocation, evidence, verdicts, known findings."""
import fcntl, hashlib, json, os, random, re, subprocess, sys, time
from concurrent.futures import ThreadPoolExecutor
from fractions import Fraction

VERIF = os.path.dirname(os.path.dirname(os.path.abspath(__file__)))
COQ = os.path.join(VERIF, "coq")
CACHE = os.path.join(VERIF, ".cache")
HARNESS = os.path.join(VERIF, "harness")
REPLAYS = os.path.join(VERIF, "replays")
EVID = os.path.join(VERIF, "evidence")
HARNESS_BIN = os.path.join(CACHE, "target", "debug", "verif-harness")
GUARD = "mini_mcmc_verif"

os.makedirs(CACHE, exist_ok=True)
os.makedirs(REPLAYS, exist_ok=True)
os.makedirs(EVID, exist_ok=True)

FORBIDDEN = re.compile(
    r"(^|\s)(Admitted|admit|Axiom|Axioms|Parameter|Parameters|Conjecture|Abort)(\s|\.|$)"
    r"|Admit Obligations|Unset Guard Checking|bypass_check|type-in-type|impredicative-set"
    r"|Unset Positivity Checking|Unset Universe Checking|native_compute")

# axioms of the standard library / installed libraries that a property theorem may depend on
STD_AXIOMS = {
    "ClassicalDedekindReals.sig_forall_dec",
    "ClassicalDedekindReals.sig_not_dec",
    "FunctionalExtensionality.functional_extensionality_dep",
    "functional_extensionality_dep",
    "sig_forall_dec", "sig_not_dec",
    "Classical_Prop.classic", "classic",
}


class Lock:
    def __init__(self, name):
        self.path = os.path.join(CACHE, name + ".lock")
    def __enter__(self):
        self.f = open(self.path, "w")
        fcntl.flock(self.f, fcntl.LOCK_EX)
    def __exit__(self, *a):
        fcntl.flock(self.f, fcntl.LOCK_UN)
        self.f.close()


def sh(cmd, cwd=None, timeout=1800, env=None, input=None):
    e = dict(os.environ)
    if env:
        e.update(env)
    p = subprocess.run(cmd, cwd=cwd, shell=isinstance(cmd, str), capture_output=True,
                       text=True, timeout=timeout, env=e, input=input)
    return p.returncode, p.stdout, p.stderr


# ----------------------------------------------------------------- Coq side
def coq_sources():
    out = []
    for d, _, fs in os.walk(COQ):
        if "/cases" in d:
            continue
        for f in fs:
            if f.endswith(".v"):
                out.append(os.path.relpath(os.path.join(d, f), COQ))
    return sorted(out)


def coq_closure(prop_file):
    """Transitive MiniMcmc dependencies of a .v file (by scanning Require lines)."""
    seen, todo = set(), [prop_file]
    while todo:
        f = todo.pop()
        if f in seen:
            continue
        seen.add(f)
        txt = open(os.path.join(COQ, f)).read()
        for m in re.finditer(r"From MiniMcmc Require (?:Import|Export)([^.]*(?:\.[A-Za-z][^.]*)*)\.", txt):
            for name in m.group(1).split():
                p = name.replace(".", "/") + ".v"
                if os.path.exists(os.path.join(COQ, p)):
                    todo.append(p)
    return sorted(seen)


def ensure_makefile():
    srcs = coq_sources()
    stamp = os.path.join(CACHE, "coq_sources.txt")
    want = "\n".join(srcs)
    mk = os.path.join(COQ, "Makefile")
    if not os.path.exists(mk) or not os.path.exists(stamp) or open(stamp).read() != want:
        rc, o, e = sh(["coq_makefile", "-f", "_CoqProject", "-o", "Makefile"] + srcs, cwd=COQ)
        if rc != 0:
            raise RuntimeError("coq_makefile failed: " + e)
        open(stamp, "w").write(want)


def proof_stage(pid):
    """Builds Properties/<pid>.vo from scratch-or-cache (full .vo build), re-compiles the
    property file itself on every run to capture Print Assumptions, and scans the closure
    for forbidden constructs.  Returns a dict (ok, obligations, discharged, axioms, log)."""
    prop = "Properties/%s.v" % pid
    res = {"ok": False, "obligations": 0, "discharged": 0, "axioms": [], "log": "",
           "theorems": [], "closure": []}
    if not os.path.exists(os.path.join(COQ, prop)):
        res["log"] = "missing " + prop
        return res
    with Lock("coq"):
        ensure_makefile()
        vo = os.path.join(COQ, prop + "o")
        if os.path.exists(vo):
            os.remove(vo)
        rc, out, err = sh(["timeout", "1500", "make", "-j16", prop + "o"], cwd=COQ, timeout=1600)
    res["log"] = (out + err)[-6000:]
    closure = coq_closure(prop)
    res["closure"] = closure
    txt = open(os.path.join(COQ, prop)).read()
    thms = re.findall(r"^\s*(?:Theorem|Corollary)\s+(\w+)", txt, re.M)
    res["theorems"] = thms
    res["obligations"] = len(thms)
    if rc != 0:
        res["log"] = "make failed:\n" + res["log"]
        return res
    # forbidden constructs anywhere in the closure
    bad = []
    for f in closure:
        src = open(os.path.join(COQ, f)).read()
        src_nc = re.sub(r"\(\*.*?\*\)", " ", src, flags=re.S)
        for ln in src_nc.splitlines():
            if FORBIDDEN.search(ln):
                bad.append("%s: %s" % (f, ln.strip()))
    if bad:
        res["log"] = "forbidden constructs:\n" + "\n".join(bad)
        return res
    # Print Assumptions output: one block per theorem, in file order
    printed = re.findall(r"Print Assumptions\s+(\w+)", txt)
    blocks = re.split(r"(?=Closed under the global context|Axioms:)", out)
    blocks = [b for b in blocks if b.startswith("Closed under") or b.startswith("Axioms:")]
    axioms = set()
    for b in blocks:
        if b.startswith("Axioms:"):
            for m in re.finditer(r"^([A-Za-z_][\w.']*)\s*:", b[len("Axioms:"):], re.M):
                axioms.add(m.group(1))
    res["axioms"] = sorted(a for a in axioms if not (a.startswith("PrimInt63.") or a.startswith("Uint63.")))
    if any(a.startswith("PrimInt63.") or a.startswith("Uint63.") for a in axioms):
        res["axioms"].append("Coq stdlib primitive 63-bit integers: PrimInt63.* operations and Uint63.*_spec axioms (%d names, via Bignums BigZ / Interval)"
                             % len([a for a in axioms if a.startswith("PrimInt63.") or a.startswith("Uint63.")]))
    missing = [t for t in thms if t not in printed]
    if missing:
        res["log"] = "theorems without Print Assumptions: %s" % missing
        return res
    if len(blocks) < len(printed):
        res["log"] = "Print Assumptions produced %d blocks for %d requests" % (len(blocks), len(printed))
        return res
    # primitive 63-bit integers of the standard library (operations + their specification axioms in
    # Coq.Numbers.Cyclic.Int63): reached through Bignums' BigZ, on which Interval's floats are built
    prim = [a for a in axioms if a.startswith("PrimInt63.") or a.startswith("Uint63.")]
    res["primitive_int63"] = len(prim)
    extra = [a for a in axioms if a not in STD_AXIOMS and a.split(".")[-1] not in STD_AXIOMS and a not in prim]
    if extra:
        res["log"] = "axioms outside the allowlist: %s" % extra
        return res
    res["discharged"] = len(thms)
    res["ok"] = True
    return res


_tok = re.compile(r"\[|\]|;|-?\d+|\(|\)")


def parse_coq_lists(text):
    """Parses the value printed by `Eval vm_compute in (x : list (list Z))`."""
    i = text.index("=")
    j = text.rindex(": list")
    body = text[i + 1:j].replace("%Z", " ").replace("%N", " ")
    toks = [t for t in _tok.findall(body) if t not in "()"]
    pos = 0

    def val():
        nonlocal pos
        if toks[pos] == "[":
            pos += 1
            items = []
            while toks[pos] != "]":
                if toks[pos] == ";":
                    pos += 1
                    continue
                items.append(val())
            pos += 1
            return items
        v = int(toks[pos])
        pos += 1
        return v
    return val()


def digest(l):
    h = 7
    for x in l:
        h = (h * 1000003 + x + 12345) % 2305843009213693951
    return [len(l), h]


def ensure_models(header):
    """The modules a cases file imports must be compiled from the current sources (a property file need not
    depend on its evaluation entry points, e.g. Model/StatsEval.v)."""
    mods = []
    for m in re.finditer(r"From MiniMcmc Require (?:Import|Export) ((?:[A-Za-z_][A-Za-z_0-9]*(?:\.[A-Za-z_][A-Za-z_0-9]*)*[ \t]*)+)\.(?:\s|$)", header):
        mods += m.group(1).split()
    targets = [x.replace(".", "/") + ".vo" for x in mods]
    if not targets:
        return
    with Lock("coq"):
        ensure_makefile()
        rc, out, err = sh(["timeout", "1500", "make", "-j16"] + targets, cwd=COQ, timeout=1600)
    if rc != 0:
        raise RuntimeError("building %s failed:\n%s" % (" ".join(targets), (out + err)[-3000:]))


def coq_eval(pid, header, terms, shard=250, timeout=1500, use_digest=False, tag=""):
    """Evaluates Gallina terms (each of type `list Z`) inside Coq with vm_compute.
    Returns a list of python lists (or raises)."""
    ensure_models(header)
    casedir = os.path.join(CACHE, "cases", pid)
    os.makedirs(casedir, exist_ok=True)
    if not tag:
        for f in os.listdir(casedir):
            os.remove(os.path.join(casedir, f))
    shard = max(1, min(shard, (len(terms) + 15) // 16))
    shards = [terms[i:i + shard] for i in range(0, len(terms), shard)]

    def run(k):
        name = "cases%s_%d" % (tag, k)
        path = os.path.join(casedir, name + ".v")
        with open(path, "w") as f:
            f.write(header + "\nOpen Scope Z_scope.\nSet Printing Depth 100000000.\nSet Printing Width 200.\n")
            for n, t in enumerate(shards[k]):
                f.write("Definition c%d : list Z := %s.\n" % (n, ("digest (%s)" % t) if use_digest else t))
            f.write("Definition results : list (list Z) := [%s].\n" %
                    "; ".join("c%d" % n for n in range(len(shards[k]))))
            f.write("Eval vm_compute in results.\n")
        rc, out, err = sh("ulimit -s unlimited 2>/dev/null; exec timeout %d coqc -noglob -Q %s MiniMcmc -w none %s" % (timeout, COQ, path),
                          cwd=casedir, timeout=timeout + 60)
        if rc != 0:
            raise RuntimeError("coqc failed on %s:\n%s" % (path, (out + err)[-3000:]))
        r = parse_coq_lists(out)
        if len(r) != len(shards[k]):
            raise RuntimeError("shard %d: %d results for %d cases" % (k, len(r), len(shards[k])))
        return r
    with ThreadPoolExecutor(max_workers=16) as ex:
        parts = list(ex.map(run, range(len(shards))))
    return [x for p in parts for x in p]


# ------------------------------------------------------------- harness side
def build_harness():
    with Lock("cargo"):
        lock_src = "/repo/Cargo.lock"
        rc, out, err = sh(["cargo", "build", "--offline"], cwd=HARNESS, timeout=3000,
                          env={"CARGO_NET_OFFLINE": "true", "CARGO_TARGET_DIR": os.path.join(CACHE, "target")})
    if rc != 0:
        return False, (out + err)[-6000:]
    return True, ""


def run_harness(pid, cases, timeout=3000, extra_args=(), env=None):
    """Sends one JSON case per line, gets one JSON result per line."""
    inp = "\n".join(json.dumps(c) for c in cases) + "\n"
    e = {"RUST_BACKTRACE": "0"}
    if env:
        e.update(env)
    rc, out, err = sh([HARNESS_BIN, pid] + list(extra_args), timeout=timeout, input=inp, env=e)
    lines = [l for l in out.splitlines() if l.startswith("{")]
    res = [json.loads(l) for l in lines]
    if rc != 0 or len(res) != len(cases):
        raise RuntimeError("harness %s: rc=%s, %d results for %d cases\n%s" %
                           (pid, rc, len(res), len(cases), err[-3000:]))
    return res


def run_isolated(pid, cases, watchdog_s=90, mem_gb=6, workers=8):
    """Each case in its own harness process under a time and address-space limit (samplers that may not terminate)."""
    import resource

    def limit():
        resource.setrlimit(resource.RLIMIT_AS, (mem_gb << 30, mem_gb << 30))

    def one(case):
        try:
            p = subprocess.run([HARNESS_BIN, pid], input=json.dumps(case) + "\n", capture_output=True, text=True,
                               timeout=watchdog_s, preexec_fn=limit)
            lines = [l for l in p.stdout.splitlines() if l.startswith("{")]
            if p.returncode != 0 or not lines:
                return {"crash": "rc=%s %s" % (p.returncode, p.stderr[-300:])}
            return json.loads(lines[-1])
        except subprocess.TimeoutExpired:
            return {"timeout": watchdog_s}
    with ThreadPoolExecutor(max_workers=workers) as ex:
        return list(ex.map(one, cases))


# --------------------------------------------------------------- verdicts
def load_known():
    p = os.path.join(VERIF, "known_findings.json")
    if os.path.exists(p):
        return json.load(open(p))
    return {"findings": [], "fixed": []}


def write_replay(pid, payload):
    h = hashlib.sha256(json.dumps(payload, sort_keys=True, default=str).encode()).hexdigest()[:12]
    path = os.path.join(REPLAYS, "%s-%s.json" % (pid, h))
    with open(path, "w") as f:
        json.dump(payload, f, indent=1, default=str)
    return path


def write_evidence(pid, tier, seed, level, coverage, assumptions, wall, violations):
    ev = {"property_id": pid, "tier": tier, "seed": seed, "level": level,
          "coverage": coverage, "assumptions": assumptions, "wall_s": round(wall, 2),
          "violations": violations}
    with open(os.path.join(EVID, pid + ".json"), "w") as f:
        json.dump(ev, f, indent=1, default=str)


def abbrev(o, max_list=6, depth=0):
    """evidence samples: long lists are cut to their first elements (the full case is reproducible from the seed)"""
    if isinstance(o, dict):
        return {k: abbrev(v, max_list, depth + 1) for k, v in o.items()}
    if isinstance(o, (list, tuple)):
        if len(o) > max_list:
            return [abbrev(v, max_list, depth + 1) for v in o[:max_list]] + ["... (%d more)" % (len(o) - max_list)]
        return [abbrev(v, max_list, depth + 1) for v in o]
    if isinstance(o, str) and len(o) > 300:
        return o[:300] + "..."
    return o


def z(v):
    """Gallina literal for an integer."""
    return "(%d)" % v if v < 0 else "%d" % v


def zlist(vs):
    if len(vs) > 1500:      # very long list literals overflow coqc's parser stack: build them by concatenation
        return "(" + " ++ ".join(zlist(vs[i:i + 1500]) for i in range(0, len(vs), 1500)) + ")"
    return "[" + "; ".join(z(v) for v in vs) + "]"


def zlistlist(vss):
    return "[" + "; ".join(zlist(v) for v in vss) + "]"


def natlit(v):
    return "%d%%nat" % v


def f32_bits_to_float(b):
    import struct
    return struct.unpack("<f", struct.pack("<I", b))[0]


def f64_bits_to_float(b):
    import struct
    return struct.unpack("<d", struct.pack("<Q", b))[0]


def float_to_f32_bits(x):
    import struct
    return struct.unpack("<I", struct.pack("<f", x))[0]


def float_to_f64_bits(x):
    import struct
    return struct.unpack("<Q", struct.pack("<d", x))[0]


def f32_exact(b):
    """Exact rational value of a finite f32 bit pattern."""
    return Fraction(f32_bits_to_float(b))
