From MiniMcmc Require Import Model.Seeds Model.Sched.
