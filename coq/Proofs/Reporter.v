(* Proofs about the progress machinery (Model/Reporter.v):
   (a) the chain worker: same draws as run_chain whatever the timing / send failures, and the
       shape of its message stream;
   (b) the reporter transition system: an invariant kept by every transition, no early exit,
       progress and termination once every chain's final message has arrived. *)
From Coq Require Import Sorting.Sorted.
From MiniMcmc Require Import Model.Reporter Proofs.Run.
From MiniMcmc Require Import Base.Util Model.Run.

(* ------------------------------------------------------------------ (a) chain worker *)
Section WorkerProofs.
  Context {St Row : Type}.
  Variable step : St -> St.
  Variable obs : St -> Row.
  Variable zero : Row.
  Variable due : nat -> bool.
  Variable send : nat -> bool.

  Lemma worker_loop_run_loop k : forall i d total s out msgs,
    fst (worker_loop step obs due send k i d total s out msgs) = run_loop step obs k i d s out.
  Proof.
    induction k as [|k IH]; intros i d total s out msgs; simpl; auto.
  Qed.

  Theorem worker_same_draws s n d :
    fst (run_chain_progress_impl step obs zero due send s n d) = run_chain_impl step obs zero s n d.
  Proof. unfold run_chain_progress_impl, run_chain_impl. apply worker_loop_run_loop. Qed.

  Theorem worker_draws_spec s n d :
    fst (run_chain_progress_impl step obs zero due send s n d)
    = (iter (n + d) step s, map (fun k => obs (iter (d + k + 1) step s)) (seq 0 n)).
  Proof. rewrite worker_same_draws. apply (run_chain_impl_spec step obs zero). Qed.

  Lemma ssorted_snoc (l : list nat) (x : nat) :
    StronglySorted lt l -> (forall y, In y l -> y < x) -> StronglySorted lt (l ++ [x]).
  Proof.
    induction l as [|a l IH]; intros Hs Hlt; simpl.
    - constructor; constructor.
    - inversion Hs as [|a' l' Hs' Hall]; subst. constructor.
      + apply IH; [assumption|]. intros y Hy. apply Hlt. right; assumption.
      + apply Forall_app. split.
        * assumption.
        * constructor; [|constructor]. apply Hlt. left; reflexivity.
  Qed.

  (* message stream: values within 1..total, strictly increasing, and (when at least one
     iteration remains) the last message is (total, send (number of earlier messages)) *)
  Lemma worker_msgs k : forall i d total s out msgs,
    i + k = total ->
    (forall m, In m msgs -> 1 <= fst m <= i) ->
    StronglySorted lt (map fst msgs) ->
    let msgs' := snd (worker_loop step obs due send k i d total s out msgs) in
    (forall m, In m msgs' -> 1 <= fst m <= total) /\
    StronglySorted lt (map fst msgs') /\
    (1 <= k -> exists l, msgs' = l ++ [(total, send (length l))]).
  Proof.
    induction k as [|k IH]; intros i d total s out msgs Hik Hb Hs.
    - simpl. split; [|split].
      + intros m Hm. specialize (Hb m Hm). lia.
      + assumption.
      + intros H; lia.
    - cbn [worker_loop]. cbv zeta.
      set (msgs1 := if due i || Nat.eqb i (total - 1)
                    then msgs ++ [(S i, send (length msgs))] else msgs).
      assert (Hb1 : forall m, In m msgs1 -> 1 <= fst m <= S i).
      { intros m Hm. unfold msgs1 in Hm. destruct (due i || Nat.eqb i (total - 1)).
        - apply in_app_or in Hm. destruct Hm as [Hm | [<- | []]].
          + specialize (Hb m Hm). lia.
          + simpl. lia.
        - specialize (Hb m Hm). lia. }
      assert (Hs1 : StronglySorted lt (map fst msgs1)).
      { unfold msgs1. destruct (due i || Nat.eqb i (total - 1)); [|assumption].
        rewrite map_app. simpl. apply ssorted_snoc; [assumption|].
        intros y Hy. apply in_map_iff in Hy. destruct Hy as [m [<- Hm]].
        specialize (Hb m Hm). lia. }
      destruct (IH (S i) d total (step s)
                   (if d <=? i then upd (i - d) (obs (step s)) out else out) msgs1
                   ltac:(lia) Hb1 Hs1) as [H1 [H2 H3]].
      split; [exact H1 | split; [exact H2 |]].
      intros _. destruct k as [|k].
      + (* last iteration: i = total - 1, the message is sent unconditionally *)
        simpl. exists msgs. unfold msgs1.
        replace (Nat.eqb i (total - 1)) with true by (symmetry; apply Nat.eqb_eq; lia).
        rewrite orb_true_r. replace (S i) with total by lia. reflexivity.
      + apply H3. lia.
  Qed.

  Theorem worker_messages s n d : 1 <= n + d ->
    let msgs := snd (run_chain_progress_impl step obs zero due send s n d) in
    (exists l, msgs = l ++ [(n + d, send (length l))]) /\
    msgs <> [] /\
    fst (last msgs (0, false)) = n + d /\
    (forall m, In m msgs -> 1 <= fst m <= n + d) /\
    StronglySorted lt (map fst msgs).
  Proof.
    intros Hn. cbv zeta. unfold run_chain_progress_impl.
    destruct (worker_msgs (n + d) 0 d (n + d) s (repeat zero n) []
                ltac:(lia) ltac:(intros m []) ltac:(constructor)) as [H1 [H2 H3]].
    destruct (H3 Hn) as [l Hl].
    split; [exists l; exact Hl|].
    split; [rewrite Hl; intros E; apply app_eq_nil in E; destruct E; discriminate|].
    split; [rewrite Hl, last_last; reflexivity|].
    split; assumption.
  Qed.

  (* the value n = total is sent exactly once, as the last message: earlier ones are smaller *)
  Corollary worker_total_only_last s n d : 1 <= n + d ->
    exists l b, snd (run_chain_progress_impl step obs zero due send s n d) = l ++ [(n + d, b)] /\
                forall m, In m l -> fst m < n + d.
  Proof.
    intros Hn. destruct (worker_messages s n d Hn) as [[l Hl] [_ [_ [_ Hs]]]].
    exists l, (send (length l)). split; [exact Hl|].
    rewrite Hl, map_app in Hs. simpl in Hs.
    clear Hl. induction l as [|a l IH]; intros m Hm; [destruct Hm|].
    simpl in Hs. inversion Hs as [|a' l' Hs' Hall]; subst.
    destruct Hm as [<- | Hm].
    - rewrite Forall_forall in Hall. apply Hall. apply in_or_app. right. left. reflexivity.
    - apply IH; assumption.
  Qed.
End WorkerProofs.

(* the draws do not depend on the clock or on whether the reporter still listens *)
Theorem worker_draws_independent {St Row : Type} (step : St -> St) (obs : St -> Row) (zero : Row)
  (due1 due2 send1 send2 : nat -> bool) s n d :
  fst (run_chain_progress_impl step obs zero due1 send1 s n d)
  = fst (run_chain_progress_impl step obs zero due2 send2 s n d).
Proof. rewrite !worker_same_draws. reflexivity. Qed.

(* ------------------------------------------------------------------ (b) reporter *)
Definition counted (r : rep) (i : nat) : Prop := i < next_active r /\ ~ In i (active r).

Definition Inv (total : N) (r : rep) : Prop :=
  NoDup (active r) /\
  (forall i, In i (active r) -> i < next_active r) /\
  next_active r <= length (recent r) /\
  n_finished r + length (active r) = next_active r /\
  length (active r) <= 5 /\
  (forall i, counted r i -> fin total r i = true) /\
  (next_active r < length (recent r) -> length (active r) = 5).

Definition all_fin (total : N) (r : rep) : Prop :=
  forall i, i < length (recent r) -> fin total r i = true.

(* ---- initial state *)
Lemma rep_init_length n : length (recent (rep_init n)) = n.
Proof. simpl. apply repeat_length. Qed.

Theorem inv_init total n : Inv total (rep_init n).
Proof.
  unfold Inv, counted; simpl. rewrite seq_length, repeat_length.
  split; [apply seq_NoDup|].
  split; [intros i Hi; apply in_seq in Hi; lia|].
  split; [lia|]. split; [lia|]. split; [lia|].
  split; [|lia].
  intros i [Hi Hn]. exfalso. apply Hn. apply in_seq. lia.
Qed.

Lemma rep_done_init_0 : rep_done (rep_init 0) = true.
Proof. reflexivity. Qed.

(* ---- deliver *)
Lemma deliver_active i m r : active (deliver i m r) = active r.
Proof. reflexivity. Qed.
Lemma deliver_next_active i m r : next_active (deliver i m r) = next_active r.
Proof. reflexivity. Qed.
Lemma deliver_n_finished i m r : n_finished (deliver i m r) = n_finished r.
Proof. reflexivity. Qed.
Lemma deliver_length i m r : length (recent (deliver i m r)) = length (recent r).
Proof. simpl. apply upd_length. Qed.
Lemma deliver_rep_done i m r : rep_done (deliver i m r) = rep_done r.
Proof. unfold rep_done. rewrite deliver_length. reflexivity. Qed.

Lemma fin_deliver_other total i j m r : i <> j -> fin total (deliver i m r) j = fin total r j.
Proof. intros H. unfold fin; simpl. rewrite nth_upd_other by assumption. reflexivity. Qed.

Lemma fin_deliver_same total i m r : i < length (recent r) ->
  fin total (deliver i m r) i = N.eqb m total.
Proof. intros H. unfold fin; simpl. rewrite nth_upd_same by assumption. reflexivity. Qed.

Theorem inv_deliver total i m r :
  Inv total r -> (fin total r i = true -> m = total) -> Inv total (deliver i m r).
Proof.
  intros [H1 [H2 [H3 [H4 [H5 [H6 H7]]]]]] Hm.
  unfold Inv, counted. rewrite deliver_length. simpl.
  repeat split; try assumption.
  intros j [Hj Hnj].
  assert (Hc : fin total r j = true) by (apply H6; split; assumption).
  destruct (Nat.eq_dec i j) as [->|Hne].
  - rewrite fin_deliver_same by lia. rewrite (Hm Hc). apply N.eqb_refl.
  - rewrite fin_deliver_other by assumption. exact Hc.
Qed.

(* ---- walk *)
Lemma walk_spec total r n act : forall next, next <= n ->
  let k := length (filter (fin total r) act) in
  let res := walk total r n act next in
  snd res = next + Nat.min k (n - next) /\
  length (fst res) + k = length act + (snd res - next) /\
  (forall i, In i (fst res) <-> (In i act /\ fin total r i = false) \/ (next <= i < snd res)).
Proof.
  induction act as [|a t IH]; intros next Hle; cbv zeta.
  - simpl. split; [lia|]. split; [lia|].
    intros i. split; [intros []|]. intros [[[] _]|H]; lia.
  - cbn [walk filter]. destruct (fin total r a) eqn:Ea.
    + destruct (next <? n) eqn:En.
      * apply Nat.ltb_lt in En.
        destruct (IH (S next) ltac:(lia)) as [I1 [I2 I3]].
        destruct (walk total r n t (S next)) as [t' nx]. cbn [fst snd length In] in *.
        split; [lia|]. split; [lia|].
        intros i. rewrite I3. split.
        -- intros [<-|[[Hi Hf]|Hr]]; [right; lia | left; auto | right; lia].
        -- intros [[[<-|Hi] Hf]|Hr].
           ++ congruence.
           ++ right; left; auto.
           ++ destruct (Nat.eq_dec next i); [left; assumption | right; right; lia].
      * apply Nat.ltb_ge in En.
        destruct (IH next Hle) as [I1 [I2 I3]].
        destruct (walk total r n t next) as [t' nx]. cbn [fst snd length In] in *.
        split; [lia|]. split; [lia|].
        intros i. rewrite I3. split.
        -- intros [[Hi Hf]|Hr]; [left; auto | right; lia].
        -- intros [[[<-|Hi] Hf]|Hr]; [congruence | left; auto | right; lia].
    + destruct (IH next Hle) as [I1 [I2 I3]].
      destruct (walk total r n t next) as [t' nx]. cbn [fst snd length In] in *.
      split; [lia|]. split; [lia|].
      intros i. rewrite I3. split.
      * intros [<-|[[Hi Hf]|Hr]]; [left; auto | left; auto | right; lia].
      * intros [[[<-|Hi] Hf]|Hr]; [left; reflexivity | right; left; auto | right; right; lia].
Qed.

Lemma walk_NoDup total r n act : forall next, next <= n ->
  NoDup act -> (forall i, In i act -> i < next) ->
  NoDup (fst (walk total r n act next)).
Proof.
  induction act as [|a t IH]; intros next Hle Hnd Hlt.
  - simpl. constructor.
  - inversion Hnd as [|a' t' Hna Hnd']; subst.
    assert (Hlt' : forall i, In i t -> i < next) by (intros i Hi; apply Hlt; right; assumption).
    cbn [walk]. destruct (fin total r a) eqn:Ea.
    + destruct (next <? n) eqn:En.
      * apply Nat.ltb_lt in En.
        pose proof (IH (S next) ltac:(lia) Hnd'
                       ltac:(intros i Hi; specialize (Hlt' i Hi); lia)) as Hn.
        destruct (walk_spec total r n t (S next) ltac:(lia)) as [_ [_ I3]].
        destruct (walk total r n t (S next)) as [t' nx]. cbn [fst snd length In] in *.
        constructor; [|assumption].
        intros Hin. apply I3 in Hin. destruct Hin as [[Hi _]|Hr]; [|lia].
        specialize (Hlt' next Hi). lia.
      * apply IH; assumption.
    + pose proof (IH next Hle Hnd' Hlt') as Hn.
      destruct (walk_spec total r n t next Hle) as [_ [_ I3]].
      destruct (walk total r n t next) as [t' nx]. cbn [fst snd length In] in *.
      constructor; [|assumption].
      intros Hin. apply I3 in Hin. destruct Hin as [[Hi _]|Hr].
      * contradiction.
      * assert (a < next) by (apply Hlt; left; reflexivity). lia.
Qed.

Lemma filter_length_le {A} (f : A -> bool) l : length (filter f l) <= length l.
Proof. induction l as [|a l IH]; simpl; [lia|]. destruct (f a); simpl; lia. Qed.

Lemma filter_all {A} (f : A -> bool) l : (forall x, In x l -> f x = true) -> filter f l = l.
Proof.
  induction l as [|a l IH]; intros H; simpl; [reflexivity|].
  rewrite (H a) by (left; reflexivity). f_equal. apply IH. intros x Hx. apply H. right; assumption.
Qed.

(* ---- tick *)
Lemma tick_recent total r : recent (tick total r) = recent r.
Proof. unfold tick. destruct (walk _ _ _ _ _). reflexivity. Qed.

Lemma tick_fin total r i : fin total (tick total r) i = fin total r i.
Proof. unfold fin. rewrite tick_recent. reflexivity. Qed.

Lemma tick_n_finished total r :
  n_finished (tick total r) = n_finished r + length (filter (fin total r) (active r)).
Proof. unfold tick. destruct (walk _ _ _ _ _). reflexivity. Qed.

Lemma tick_active total r :
  active (tick total r) = fst (walk total r (length (recent r)) (active r) (next_active r)).
Proof. unfold tick. destruct (walk _ _ _ _ _). reflexivity. Qed.

Lemma tick_next_active total r :
  next_active (tick total r) = snd (walk total r (length (recent r)) (active r) (next_active r)).
Proof. unfold tick. destruct (walk _ _ _ _ _). reflexivity. Qed.

Theorem inv_tick total r : Inv total r -> Inv total (tick total r).
Proof.
  intros [H1 [H2 [H3 [H4 [H5 [H6 H7]]]]]].
  pose proof (walk_spec total r (length (recent r)) (active r) (next_active r) H3) as Hw.
  cbv zeta in Hw. destruct Hw as [W1 [W2 W3]].
  pose proof (walk_NoDup total r (length (recent r)) (active r) (next_active r) H3 H1 H2) as Wn.
  pose proof (filter_length_le (fin total r) (active r)) as Hk.
  unfold Inv, counted.
  rewrite tick_recent, tick_n_finished, tick_active, tick_next_active.
  set (k := length (filter (fin total r) (active r))) in *.
  set (res := walk total r (length (recent r)) (active r) (next_active r)) in *.
  split; [exact Wn|].
  split.
  { intros i Hi. apply W3 in Hi. destruct Hi as [[Hi _]|Hr]; [|lia].
    specialize (H2 i Hi). lia. }
  split; [lia|]. split; [lia|]. split; [lia|].
  split; [|lia].
  intros i [Hi Hni]. rewrite tick_fin.
  destruct (fin total r i) eqn:Ef; [reflexivity|]. rewrite <- Ef.
  destruct (Nat.lt_ge_cases i (next_active r)) as [Hlt|Hge].
  - apply H6. split; [assumption|]. intros Hin. apply Hni. apply W3. left. split; assumption.
  - exfalso. apply Hni. apply W3. right. lia.
Qed.

Lemma tick_rep_done_mono total r : rep_done r = true -> rep_done (tick total r) = true.
Proof.
  unfold rep_done. rewrite tick_recent, tick_n_finished. intros H.
  apply Nat.leb_le in H. apply Nat.leb_le. lia.
Qed.

(* ---- no early exit *)
Theorem no_early_exit total r :
  Inv total r -> rep_done r = true -> all_fin total r.
Proof.
  intros [H1 [H2 [H3 [H4 [H5 [H6 H7]]]]]] Hd i Hi.
  unfold rep_done in Hd. apply Nat.leb_le in Hd.
  apply H6. split; [lia|].
  assert (Hl : length (active r) = 0) by lia.
  destruct (active r); [intros []|discriminate].
Qed.

(* done exactly when every chain has been counted *)
Lemma rep_done_iff total r : Inv total r ->
  (rep_done r = true <-> next_active r = length (recent r) /\ active r = []).
Proof.
  intros [H1 [H2 [H3 [H4 [H5 [H6 H7]]]]]]. unfold rep_done. rewrite Nat.leb_le. split.
  - intros Hd. split; [lia|]. assert (Hl : length (active r) = 0) by lia.
    destruct (active r); [reflexivity|discriminate].
  - intros [Hn Ha]. rewrite Ha in H4. simpl in H4. lia.
Qed.

(* ---- progress once every final message is in *)
Lemma all_fin_tick total r : all_fin total r -> all_fin total (tick total r).
Proof. intros H i Hi. rewrite tick_recent in Hi. rewrite tick_fin. apply H; assumption. Qed.

Theorem reporter_progress total r : Inv total r -> all_fin total r ->
  n_finished (tick total r) = n_finished r + length (active r) /\
  n_finished (tick total r) = next_active r /\
  next_active (tick total r)
    = next_active r + Nat.min (length (active r)) (length (recent r) - next_active r) /\
  length (active (tick total r)) = Nat.min 5 (length (recent r) - next_active r).
Proof.
  intros [H1 [H2 [H3 [H4 [H5 [H6 H7]]]]]] Hall.
  assert (Hf : filter (fin total r) (active r) = active r).
  { apply filter_all. intros i Hi. apply Hall. specialize (H2 i Hi). lia. }
  pose proof (walk_spec total r (length (recent r)) (active r) (next_active r) H3) as Hw.
  cbv zeta in Hw. rewrite Hf in Hw. destruct Hw as [W1 [W2 _]].
  rewrite tick_n_finished, tick_active, tick_next_active, Hf.
  split; [reflexivity|]. split; [lia|]. split; [exact W1|].
  destruct (Nat.lt_ge_cases (next_active r) (length (recent r))) as [Hlt|Hge].
  - specialize (H7 Hlt). lia.
  - lia.
Qed.

Lemma reporter_done_after total q : forall r,
  Inv total r -> all_fin total r ->
  length (recent r) - next_active r <= 5 * q ->
  rep_done (iter (S q) (tick total) r) = true.
Proof.
  induction q as [|q IH]; intros r HI Hall Hrem.
  - simpl. destruct (reporter_progress total r HI Hall) as [_ [P2 _]].
    destruct HI as [H1 [H2 [H3 _]]].
    unfold rep_done. rewrite tick_recent, P2. apply Nat.leb_le. lia.
  - change (iter (S (S q)) (tick total) r) with (tick total (iter (S q) (tick total) r)).
    rewrite <- iter_S_comm.
    destruct (reporter_progress total r HI Hall) as [_ [_ [P3 _]]].
    apply IH.
    + apply inv_tick; assumption.
    + apply all_fin_tick; assumption.
    + rewrite tick_recent, P3.
      destruct HI as [H1 [H2 [H3 [H4 [H5 [H6 H7]]]]]].
      destruct (Nat.lt_ge_cases (next_active r) (length (recent r))) as [Hlt|Hge].
      * specialize (H7 Hlt). lia.
      * lia.
Qed.

Lemma iter_tick_done_mono total k : forall r,
  rep_done r = true -> rep_done (iter k (tick total) r) = true.
Proof.
  induction k as [|k IH]; intros r H; simpl; [assumption|].
  apply tick_rep_done_mono. apply IH. assumption.
Qed.

Theorem reporter_terminates total r : Inv total r -> all_fin total r ->
  exists k, k <= length (recent r) / 5 + 2 /\ rep_done (iter k (tick total) r) = true.
Proof.
  intros HI Hall. exists (S (length (recent r) / 5 + 1)). split; [lia|].
  apply reporter_done_after; try assumption.
  pose proof (Nat.div_mod (length (recent r)) 5 ltac:(lia)) as Hdm.
  pose proof (Nat.mod_upper_bound (length (recent r)) 5 ltac:(lia)) as Hmod.
  lia.
Qed.

(* sharper: ceil(remaining/5) + 1 ticks suffice, and every later tick keeps `done` *)
Theorem reporter_terminates_from total r k : Inv total r -> all_fin total r ->
  length (recent r) / 5 + 2 <= k -> rep_done (iter k (tick total) r) = true.
Proof.
  intros HI Hall Hk.
  replace k with ((k - (length (recent r) / 5 + 2)) + S (length (recent r) / 5 + 1)) by lia.
  rewrite iter_add. apply iter_tick_done_mono.
  apply reporter_done_after; try assumption.
  pose proof (Nat.div_mod (length (recent r)) 5 ltac:(lia)) as Hdm.
  pose proof (Nat.mod_upper_bound (length (recent r)) 5 ltac:(lia)) as Hmod.
  lia.
Qed.

(* ---- reachable reporter states: any interleaving of message arrivals and loop iterations.
   A chain whose final message (n = total) is the most recent one sends nothing further
   (worker_total_only_last), hence the side condition of reach_deliver. *)
Inductive reach (total : N) (n : nat) : rep -> Prop :=
| reach_init : reach total n (rep_init n)
| reach_deliver r i m : reach total n r -> (fin total r i = true -> m = total) ->
                        reach total n (deliver i m r)
| reach_tick r : reach total n r -> reach total n (tick total r).

Theorem reach_inv total n r : reach total n r -> Inv total r /\ length (recent r) = n.
Proof.
  induction 1 as [|r i m Hr [IH1 IH2] Hm|r Hr [IH1 IH2]].
  - split; [apply inv_init | apply rep_init_length].
  - split; [apply inv_deliver; assumption | rewrite deliver_length; assumption].
  - split; [apply inv_tick; assumption | rewrite tick_recent; assumption].
Qed.

Theorem reach_terminates total n r :
  reach total n r -> (forall i, i < n -> fin total r i = true) ->
  exists k, k <= n / 5 + 2 /\ rep_done (iter k (tick total) r) = true.
Proof.
  intros Hr Hall. destruct (reach_inv total n r Hr) as [HI Hn]. subst n.
  exact (reporter_terminates total r HI Hall).
Qed.
