"""Tie audit: which model definitions do the property theorems of one property speak about, and is each of
them reached by a term the correspondence check actually evaluated on this run?

A theorem about a definition that no evaluated case reaches is a theorem about something nothing ties to the
code (this is how the first `find_eps` model drifted, DESIGN.md §8.2).  The audit is textual and deliberately
over-approximates reachability only through name collisions between model files:

  D  = names defined in coq/Base/*.v and coq/Model/*.v (Definition / Fixpoint / Record / Inductive / fields /
       constructors), each with the identifiers of its body;
  E0 = identifiers of D occurring in the cases_*.v files the run just wrote and evaluated;
  E  = closure of E0 under "body mentions";
  S  = identifiers of D occurring in the *statements* (not proofs) of Properties/Cxx.v;
  unreached = S \\ E, each either explained in coq/tie_allow.json or reported as unexplained.
"""
import json
import os
import re
import sys
sys.path.insert(0, os.path.dirname(os.path.abspath(__file__)))

VERIF = os.path.dirname(os.path.dirname(os.path.abspath(__file__)))
COQ = os.path.join(VERIF, "coq")
IDENT = re.compile(r"[A-Za-z_][A-Za-z_0-9']*")
HEAD = re.compile(r"^\s*(?:Local\s+|Global\s+|Program\s+)?(Definition|Fixpoint|Record|Inductive|Let|Notation|Variant|CoFixpoint|Function|Instance)\s+([A-Za-z_][A-Za-z_0-9']*)")


def strip_comments(s):
    out, depth, i = [], 0, 0
    while i < len(s):
        if s.startswith("(*", i):
            depth += 1
            i += 2
        elif s.startswith("*)", i) and depth:
            depth -= 1
            i += 2
        else:
            if not depth:
                out.append(s[i])
            i += 1
    return "".join(out)


def definitions(only=None):
    """name -> set(identifiers in its body); also fields/constructors/`with` functions map to the owner's body.
    `only`: restrict to these files (relative to coq/), e.g. the import closure of one property file."""
    defs = {}
    for sub in ("Base", "Model"):
        for fn in sorted(os.listdir(os.path.join(COQ, sub))):
            if not fn.endswith(".v") or (only is not None and "%s/%s" % (sub, fn) not in only):
                continue
            text = strip_comments(open(os.path.join(COQ, sub, fn)).read())
            # sentences end with ". " / ".\n"
            for sent in re.split(r"\.\s", text):
                m = HEAD.match(sent.strip() and sent or "")
                if not m:
                    m = HEAD.match(sent.lstrip())
                if not m:
                    continue
                kind, name = m.group(1), m.group(2)
                if kind == "Notation":
                    continue
                ids = set(IDENT.findall(sent))
                names = [name]
                if kind in ("Record", "Inductive", "Variant"):
                    # fields `f :` / constructors `| C` / Build_
                    names += re.findall(r"[{;]\s*([A-Za-z_][A-Za-z_0-9']*)\s*:", sent)
                    names += re.findall(r"\|\s*([A-Za-z_][A-Za-z_0-9']*)", sent)
                    names += re.findall(r":=\s*([A-Za-z_][A-Za-z_0-9']*)\s*[{:(]", sent)
                    names.append("Build_" + name)
                if kind in ("Fixpoint",):
                    names += re.findall(r"\bwith\s+([A-Za-z_][A-Za-z_0-9']*)\s*[({]", sent)
                for n in names:
                    defs.setdefault(n, {}).setdefault("%s/%s" % (sub, fn), set()).update(ids - {n})
    return defs


_closure_cache = {}


def visible_from(f):
    """files whose definitions a file can name: its MiniMcmc import closure (itself included)"""
    import common
    if f not in _closure_cache:
        _closure_cache[f] = set(common.coq_closure(f))
    return _closure_cache[f]


def statements(pid):
    """theorem name -> identifiers of its statement"""
    text = strip_comments(open(os.path.join(COQ, "Properties", pid + ".v")).read())
    res = {}
    bound = set()                                  # names bound as section variables / binders: not references
    for m in re.finditer(r"\b(?:Variables?|Hypothes[ie]s)\s+([A-Za-z_0-9' ]+):", text):
        bound |= set(m.group(1).split())
    for m in re.finditer(r"\bContext\s*[{(]([A-Za-z_0-9' ]+):", text):
        bound |= set(m.group(1).split())
    for m in re.finditer(r"\b(Theorem|Example|Corollary)\s+([A-Za-z_0-9']+)(.*?)\bProof\b", text, re.S):
        st = m.group(3)
        loc = set(bound)
        for b in re.finditer(r"[({]([A-Za-z_0-9' ]+):", st):
            loc |= set(b.group(1).split())
        for b in re.finditer(r"\b(?:forall|exists|fun)\s+([A-Za-z_0-9' ]+?)\s*[,:=(]", st):
            loc |= set(b.group(1).split())
        res[m.group(2)] = set(IDENT.findall(st)) - loc
    # section Variables / Hypotheses / Let are part of the statements
    extra = set()
    for m in re.finditer(r"\b(?:Variables?|Hypothes[ie]s|Context|Let)\b(.*?)\.\s", text, re.S):
        extra |= set(IDENT.findall(m.group(1)))
    return res, extra - bound


def entry_points(casedir, defs):
    """(name, file) pairs named in the evaluated cases files, resolved through the files the cases import"""
    e0 = set()
    if os.path.isdir(casedir):
        for fn in os.listdir(casedir):
            if fn.endswith(".v"):
                text = open(os.path.join(casedir, fn)).read()
                vis = set()
                for m in re.finditer(r"From MiniMcmc Require (?:Import|Export) ((?:[A-Za-z_][A-Za-z_0-9]*(?:\.[A-Za-z_][A-Za-z_0-9]*)*[ \t]*)+)\.(?:\s|$)", text):
                    for mod in m.group(1).split():
                        vis |= visible_from(mod.replace(".", "/") + ".v")
                for n in set(IDENT.findall(text)) & set(defs):
                    if not re.fullmatch(r"c\d+|results", n):          # the cases file's own names
                        e0 |= {(n, f) for f in defs[n] if f in vis}
    return e0


def closure(e0, defs):
    """(name, file) pairs reachable through definition bodies; a name in a body resolves only to definitions in
    files the defining file imports"""
    reached, todo = set(), list(e0)
    while todo:
        n, f = todo.pop()
        if (n, f) in reached:
            continue
        reached.add((n, f))
        vis = visible_from(f)
        for x in defs[n][f]:
            for g in defs.get(x, ()):
                if g in vis and (x, g) not in reached:
                    todo.append((x, g))
    return reached


def audit(pid, casedir):
    defs = definitions()
    e0 = entry_points(casedir, defs)
    reached = closure(e0, defs)
    # definitions tied by another property's correspondence (its cases_*.v as cached from its last run)
    via = {}
    root = os.path.dirname(casedir)
    if os.path.isdir(root):
        for other in sorted(os.listdir(root)):
            if other != pid:
                for nf in closure(entry_points(os.path.join(root, other), defs), defs):
                    via.setdefault(nf, other)
    stm, extra = statements(pid)
    pvis = visible_from("Properties/%s.v" % pid)
    spoken = {}                                   # (name, file) -> theorems
    for th, ids in stm.items():
        for n in (ids | extra) & set(defs):
            for f in defs[n]:
                if f in pvis:
                    spoken.setdefault((n, f), []).append(th)
    allow = {}
    p = os.path.join(COQ, "tie_allow.json")
    if os.path.exists(p):
        allow = json.load(open(p))
    unreached = sorted(nf for nf in spoken if nf not in reached)
    label = lambda nf: "%s (%s)" % (nf[0], nf[1][:-2])
    explained = {label(nf): "evaluated by the correspondence check of %s (its last run's cases)" % via[nf]
                 for nf in unreached if nf in via}
    explained.update({label(nf): allow[nf[0]] for nf in unreached if nf not in via and nf[0] in allow})
    unexplained = {label(nf): sorted(set(spoken[nf]))[:4] for nf in unreached if label(nf) not in explained}
    return {"evaluated_entry_points": sorted({n for n, f in e0})[:60],
            "model_definitions_reached_by_evaluated_cases": len(reached),
            "model_definitions_in_theorem_statements": len(spoken),
            "of_those_reached": len(spoken) - len(unreached),
            "unreached_explained": explained,
            "unreached_unexplained": unexplained,
            "rule": "a model definition named in a theorem statement must be reached (transitively, through definition "
                    "bodies) from a term evaluated in this run's cases_*.v, or carry a reason in coq/tie_allow.json"}


if __name__ == "__main__":
    for pid in sys.argv[1:] or ["C%02d" % i for i in range(1, 19)]:
        r = audit(pid, os.path.join(VERIF, ".cache", "cases", pid))
        print(pid, "spoken", r["model_definitions_in_theorem_statements"], "reached", r["of_those_reached"],
              "explained", len(r["unreached_explained"]))
        for n, ths in r["unreached_unexplained"].items():
            print("    UNEXPLAINED", n, ths)
