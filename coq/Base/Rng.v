(* Bit-exact model of rand 0.9.2 `SmallRng` on 64-bit targets = Xoshiro256PlusPlus seeded through
   SplitMix64 (rand-0.9.2/src/rngs/xoshiro256plusplus.rs), over N with explicit mod 2^64, and of
   the StandardUniform float conversions (rand-0.9.2/src/distr/float.rs). Definitions only. *)
From Coq Require Export NArith ZArith List Lia.
Export ListNotations.
Open Scope N_scope.

Definition W64 : N := 18446744073709551616.       (* 2^64 *)
Definition wrap (x : N) : N := x mod W64.
Definition add64 (a b : N) : N := wrap (a + b).
Definition mul64 (a b : N) : N := wrap (a * b).
Definition shl64 (a k : N) : N := wrap (N.shiftl a k).
Definition rotl64 (a k : N) : N := N.lor (shl64 a k) (N.shiftr a (64 - k)).
Definition rotr64 (a k : N) : N := rotl64 a (64 - k).

Definition PHI : N := 11400714819323198485.        (* 0x9e3779b97f4a7c15 *)
Definition MIX1 : N := 13787848793156543929.       (* 0xbf58476d1ce4e5b9 *)
Definition MIX2 : N := 10723151780598845931.       (* 0x94d049bb133111eb *)

(* SplitMix64 output function *)
Definition mix (z : N) : N :=
  let z1 := mul64 (N.lxor z (N.shiftr z 30)) MIX1 in
  let z2 := mul64 (N.lxor z1 (N.shiftr z1 27)) MIX2 in
  N.lxor z2 (N.shiftr z2 31).

Record xstate := { s0 : N; s1 : N; s2 : N; s3 : N }.

(* seed_from_u64: four successive SplitMix64 outputs *)
Definition seed_from_u64 (seed : N) : xstate :=
  let a := add64 seed PHI in
  let b := add64 a PHI in
  let c := add64 b PHI in
  let d := add64 c PHI in
  {| s0 := mix a; s1 := mix b; s2 := mix c; s3 := mix d |}.

Definition next_u64 (s : xstate) : N * xstate :=
  let res := add64 (rotl64 (add64 (s0 s) (s3 s)) 23) (s0 s) in
  let t := shl64 (s1 s) 17 in
  let s2' := N.lxor (s2 s) (s0 s) in
  let s3' := N.lxor (s3 s) (s1 s) in
  let s1' := N.lxor (s1 s) s2' in
  let s0' := N.lxor (s0 s) s3' in
  let s2'' := N.lxor s2' t in
  let s3'' := rotl64 s3' 45 in
  (res, {| s0 := s0'; s1 := s1'; s2 := s2''; s3 := s3'' |}).

Definition next_u32 (s : xstate) : N * xstate :=
  let (v, s') := next_u64 s in (N.shiftr v 32, s').

(* StandardUniform: f64 = (next_u64 >> 11) * 2^-53 ; f32 = (next_u32 >> 8) * 2^-24.
   The models return the integer numerator. *)
Definition uniform53 (s : xstate) : N * xstate :=
  let (v, s') := next_u64 s in (N.shiftr v 11, s').
Definition uniform24 (s : xstate) : N * xstate :=
  let (v, s') := next_u32 s in (N.shiftr v 8, s').

Definition wf (s : xstate) : Prop := s0 s < W64 /\ s1 s < W64 /\ s2 s < W64 /\ s3 s < W64.

(* the state the harness uses to inject a chosen first output v *)
Definition inject_state (v : N) : xstate := {| s0 := 0; s1 := 1; s2 := 0; s3 := rotr64 v 23 |}.

(* k successive outputs *)
Fixpoint outputs (k : nat) (s : xstate) : list N :=
  match k with O => [] | S k' => let (v, s') := next_u64 s in v :: outputs k' s' end.

Definition rng_eval (seed : N) (k : nat) : list Z :=
  let s := seed_from_u64 seed in
  map Z.of_N ([s0 s; s1 s; s2 s; s3 s] ++ outputs k s).

(* ---- the state transition alone, its inverse, and k transitions (theorems: Proofs/RngBij.v).
   prev_state has no counterpart in the code: it is the witness that the transition is a bijection ---- *)
Definition xsl17 (x : N) : N := N.lxor x (shl64 x 17).
Definition xsl17_inv (y : N) : N :=
  N.lxor y (N.lxor (shl64 y 17) (N.lxor (shl64 y 34) (shl64 y 51))).
Definition next_state (s : xstate) : xstate := snd (next_u64 s).
Definition prev_state (s : xstate) : xstate :=
  let r3 := rotr64 (s3 s) 45 in
  let o0 := N.lxor (s0 s) r3 in
  let o1 := xsl17_inv (N.lxor (s1 s) (s2 s)) in
  let o2 := N.lxor (N.lxor (s1 s) o1) o0 in
  let o3 := N.lxor r3 o1 in
  {| s0 := o0; s1 := o1; s2 := o2; s3 := o3 |}.
Fixpoint steps (k : nat) (s : xstate) : xstate :=
  match k with O => s | S k' => steps k' (next_state s) end.

(* float conversions and the injection state: numerators of the first f64 / f32 uniform of
   seed_from_u64 s, then first output and first f64 / f32 numerators of inject_state s *)
Definition rng_uniform_eval (s : N) : list Z :=
  map Z.of_N [fst (uniform53 (seed_from_u64 s)); fst (uniform24 (seed_from_u64 s));
              fst (next_u64 (inject_state s)); fst (uniform53 (inject_state s)); fst (uniform24 (inject_state s));
              (* the 4th output through `steps`, and the transition undone by `prev_state` (1 = back at the seed state) *)
              fst (next_u64 (steps 3 (seed_from_u64 s)));
              (let z := seed_from_u64 s in let w := prev_state (next_state z) in
               if andb (andb (s0 w =? s0 z) (s1 w =? s1 z)) (andb (s2 w =? s2 z) (s3 w =? s3 z)) then 1 else 0)].
