(* Proofs for Model/GibbsDist.v: the full-conditional kernel of any block function leaves the
   joint distribution invariant; invariance is closed under composition; hence a sweep of
   full conditionals, in order, leaves the joint invariant.  Product-space instance.  The
   stale-snapshot variant does not. *)
From MiniMcmc Require Export Model.GibbsDist.
From MiniMcmc Require Import Model.MH.
From Coq Require Import Lra.
Local Open Scope R_scope.

(* ---- finite sums (self-contained; names distinct from those of Proofs/MH.v) ---- *)
Section Sums.
  Context {X : Type}.

  Lemma sumR_ext_in (f g : X -> R) l :
    (forall x, In x l -> f x = g x) -> sumR f l = sumR g l.
  Proof.
    induction l as [|a l IH]; simpl; intros Hfg; [reflexivity|].
    rewrite IH, (Hfg a) by auto. reflexivity.
  Qed.

  Lemma sumR_add (f g : X -> R) l : sumR (fun x => f x + g x) l = sumR f l + sumR g l.
  Proof. induction l as [|a l IH]; simpl; [lra|]. rewrite IH. lra. Qed.

  Lemma sumR_mult_l c (f : X -> R) l : sumR (fun x => c * f x) l = c * sumR f l.
  Proof. induction l as [|a l IH]; simpl; [lra|]. rewrite IH. lra. Qed.

  Lemma sumR_mult_r c (f : X -> R) l : sumR (fun x => f x * c) l = sumR f l * c.
  Proof. induction l as [|a l IH]; simpl; [lra|]. rewrite IH. lra. Qed.

  Lemma sumR_zero (l : list X) : sumR (fun _ => 0) l = 0.
  Proof. induction l as [|a l IH]; simpl; [reflexivity|]. rewrite IH. lra. Qed.

  Lemma sumR_nonneg (f : X -> R) l : (forall x, In x l -> 0 <= f x) -> 0 <= sumR f l.
  Proof.
    induction l as [|a l IH]; simpl; intros Hf; [lra|].
    assert (Ha : 0 <= f a) by auto.
    assert (Hl : 0 <= sumR f l) by auto.
    lra.
  Qed.

  (* a sum of non-negative terms that is 0 has all its terms 0 *)
  Lemma sumR_nonneg_zero (f : X -> R) l :
    (forall x, In x l -> 0 <= f x) -> sumR f l = 0 -> forall x, In x l -> f x = 0.
  Proof.
    induction l as [|a l IH]; simpl; intros Hf Hs x Hx; [contradiction|].
    assert (Ha : 0 <= f a) by auto.
    assert (Hl : 0 <= sumR f l) by (apply sumR_nonneg; auto).
    destruct Hx as [<-|Hx]; [lra|].
    apply IH; auto. lra.
  Qed.

  Section Indicator.
    Variable eqbX : X -> X -> bool.
    Hypothesis eqbX_spec : forall a b, eqbX a b = true <-> a = b.

    Lemma sumR_ind_notin (g : X -> R) y l :
      ~ In y l -> sumR (fun x => if eqbX x y then g x else 0) l = 0.
    Proof.
      induction l as [|a l IH]; simpl; intros Hn; [reflexivity|].
      destruct (eqbX a y) eqn:E.
      - apply eqbX_spec in E. subst. exfalso. apply Hn. left. reflexivity.
      - rewrite IH; [lra|]. intros Hin. apply Hn. right. exact Hin.
    Qed.

    Lemma sumR_ind_in (g : X -> R) y l :
      NoDup l -> In y l -> sumR (fun x => if eqbX x y then g x else 0) l = g y.
    Proof.
      induction l as [|a l IH]; simpl; intros Hnd Hin; [contradiction|].
      inversion Hnd as [|a' l' Hnotin Hnd']; subst.
      destruct Hin as [->|Hin].
      - assert (E : eqbX y y = true) by (apply eqbX_spec; reflexivity). rewrite E.
        rewrite sumR_ind_notin by assumption. lra.
      - destruct (eqbX a y) eqn:E.
        + apply eqbX_spec in E. subst. contradiction.
        + rewrite IH by assumption. lra.
    Qed.
  End Indicator.
End Sums.

(* Fubini for two finite sums *)
Lemma sumR_swap {X Y} (f : X -> Y -> R) l1 l2 :
  sumR (fun x => sumR (fun y => f x y) l2) l1 = sumR (fun y => sumR (fun x => f x y) l1) l2.
Proof.
  induction l1 as [|a l1 IH]; simpl.
  - rewrite sumR_zero. reflexivity.
  - rewrite IH. rewrite <- sumR_add. reflexivity.
Qed.

(* ---- kernels ---- *)
Section GibbsDistProofs.
  Context {X B : Type}.
  Variable states : list X.
  Variable pi : X -> R.
  Variable eqbB : B -> B -> bool.
  Hypothesis eqbB_spec : forall a b, eqbB a b = true <-> a = b.
  Hypothesis pi_nonneg : forall x, 0 <= pi x.

  Lemma eqbB_refl b : eqbB b b = true.
  Proof. apply eqbB_spec. reflexivity. Qed.

  Lemma eqbB_sym a b : eqbB a b = eqbB b a.
  Proof.
    destruct (eqbB a b) eqn:E1, (eqbB b a) eqn:E2; try reflexivity.
    - apply eqbB_spec in E1. subst. rewrite eqbB_refl in E2. discriminate.
    - apply eqbB_spec in E2. subst. rewrite eqbB_refl in E1. discriminate.
  Qed.

  Lemma block_mass_nonneg blk b : 0 <= block_mass states pi eqbB blk b.
  Proof.
    unfold block_mass. apply sumR_nonneg. intros x _.
    destruct (eqbB (blk x) b); [apply pi_nonneg | lra].
  Qed.

  (* a state of an empty-mass block has weight 0 *)
  Lemma block_mass_zero blk x :
    In x states -> block_mass states pi eqbB blk (blk x) = 0 -> pi x = 0.
  Proof.
    intros Hin Hm. unfold block_mass in Hm.
    pose proof (sumR_nonneg_zero (fun y => if eqbB (blk y) (blk x) then pi y else 0) states) as H.
    simpl in H. rewrite <- (H) with (x := x); auto.
    - rewrite eqbB_refl. reflexivity.
    - intros y _. destruct (eqbB (blk y) (blk x)); [apply pi_nonneg | lra].
  Qed.

  (* the full conditional only moves inside the block *)
  Lemma cond_kernel_support blk x x' :
    cond_kernel states pi eqbB blk x x' <> 0 -> blk x' = blk x.
  Proof.
    unfold cond_kernel. destruct (eqbB (blk x') (blk x)) eqn:E; intros H.
    - apply eqbB_spec. exact E.
    - exfalso. apply H. reflexivity.
  Qed.

  Lemma cond_kernel_nonneg blk x x' : 0 <= cond_kernel states pi eqbB blk x x'.
  Proof.
    unfold cond_kernel. destruct (eqbB (blk x') (blk x)); [|lra].
    pose proof (block_mass_nonneg blk (blk x)) as Hm. pose proof (pi_nonneg x') as Hp.
    destruct (Req_dec (block_mass states pi eqbB blk (blk x)) 0) as [E|E].
    - rewrite E. unfold Rdiv. rewrite Rinv_0. lra.
    - apply Rmult_le_pos; [assumption|]. apply Rlt_le, Rinv_0_lt_compat. lra.
  Qed.

  (* (1) the exact full conditional leaves the joint invariant *)
  Theorem cond_kernel_invariant blk : invariant states pi (cond_kernel states pi eqbB blk).
  Proof.
    intros x' Hin. unfold cond_kernel.
    set (m := block_mass states pi eqbB blk).
    rewrite (sumR_ext_in _
      (fun x => pi x' / m (blk x') * (if eqbB (blk x) (blk x') then pi x else 0))).
    - rewrite sumR_mult_l. fold (block_mass states pi eqbB blk (blk x')). fold m.
      destruct (Req_dec (m (blk x')) 0) as [E|E].
      + rewrite (block_mass_zero blk x' Hin E). unfold Rdiv. lra.
      + field. exact E.
    - intros x _. rewrite (eqbB_sym (blk x) (blk x')).
      destruct (eqbB (blk x') (blk x)) eqn:E.
      + apply eqbB_spec in E. rewrite E. unfold Rdiv. lra.
      + lra.
  Qed.

  (* (2) and it is a probability distribution wherever the block carries mass *)
  Theorem cond_kernel_stochastic blk x :
    block_mass states pi eqbB blk (blk x) <> 0 ->
    sumR (cond_kernel states pi eqbB blk x) states = 1.
  Proof.
    intros Hm. unfold cond_kernel.
    rewrite (sumR_ext_in _
      (fun x' => / block_mass states pi eqbB blk (blk x)
                 * (if eqbB (blk x') (blk x) then pi x' else 0))).
    - rewrite sumR_mult_l. fold (block_mass states pi eqbB blk (blk x)). field. exact Hm.
    - intros x' _. destruct (eqbB (blk x') (blk x)); unfold Rdiv; lra.
  Qed.

  (* (3) invariance is closed under composition (exchange of the two finite sums) *)
  Theorem compose_invariant (K1 K2 : kernel) :
    invariant states pi K1 -> invariant states pi K2 ->
    invariant states pi (compose states K1 K2).
  Proof.
    intros H1 H2 z Hz. unfold compose.
    rewrite (sumR_ext_in _ (fun x => sumR (fun y => pi x * K1 x y * K2 y z) states)).
    - rewrite (sumR_swap (fun x y => pi x * K1 x y * K2 y z)).
      rewrite (sumR_ext_in _ (fun y => pi y * K2 y z)).
      + apply H2. exact Hz.
      + intros y Hy. rewrite sumR_mult_r. rewrite (H1 y Hy). reflexivity.
    - intros x _. rewrite <- sumR_mult_l. apply sumR_ext_in. intros y _. lra.
  Qed.

  Theorem compose_stochastic (K1 K2 : kernel) :
    stochastic states K1 -> stochastic states K2 -> stochastic states (compose states K1 K2).
  Proof.
    intros H1 H2 x Hx. unfold compose.
    rewrite (sumR_swap (fun z y => K1 x y * K2 y z)).
    rewrite (sumR_ext_in _ (K1 x)).
    - apply H1. exact Hx.
    - intros y Hy. rewrite sumR_mult_l. rewrite (H2 y Hy). lra.
  Qed.

  (* (4) the identity kernel, and any in-order composition of invariant kernels *)
  Section Sweep.
    Variable eqbX : X -> X -> bool.
    Hypothesis eqbX_spec : forall a b, eqbX a b = true <-> a = b.
    Hypothesis states_nodup : NoDup states.

    Lemma id_kernel_invariant : invariant states pi (id_kernel eqbX).
    Proof.
      intros x' Hin. unfold id_kernel.
      rewrite (sumR_ext_in _ (fun x => if eqbX x x' then pi x else 0)).
      - apply (sumR_ind_in eqbX eqbX_spec); assumption.
      - intros x _. destruct (eqbX x x'); lra.
    Qed.

    Lemma id_kernel_stochastic : stochastic states (id_kernel eqbX).
    Proof.
      intros x Hin. unfold id_kernel.
      rewrite (sumR_ext_in _ (fun y => if eqbX y x then 1 else 0)).
      - apply (sumR_ind_in eqbX eqbX_spec (fun _ => 1)); assumption.
      - intros y _. destruct (eqbX x y) eqn:E1, (eqbX y x) eqn:E2; try reflexivity.
        + apply eqbX_spec in E1. subst.
          assert (E : eqbX y y = true) by (apply eqbX_spec; reflexivity). congruence.
        + apply eqbX_spec in E2. subst.
          assert (E : eqbX x x = true) by (apply eqbX_spec; reflexivity). congruence.
    Qed.

    Theorem sweep_invariant (Ks : list kernel) :
      Forall (invariant states pi) Ks ->
      invariant states pi (compose_all states Ks (id_kernel eqbX)).
    Proof.
      induction 1 as [|K Ks HK _ IH]; simpl.
      - apply id_kernel_invariant.
      - apply compose_invariant; assumption.
    Qed.

    Theorem sweep_stochastic (Ks : list kernel) :
      Forall (stochastic states) Ks ->
      stochastic states (compose_all states Ks (id_kernel eqbX)).
    Proof.
      induction 1 as [|K Ks HK _ IH]; simpl.
      - apply id_kernel_stochastic.
      - apply compose_stochastic; assumption.
    Qed.

    (* a sweep of exact full conditionals, one per block function, in order *)
    Theorem gibbs_sweep_invariant (blks : list (X -> B)) :
      invariant states pi
        (compose_all states (map (fun blk => cond_kernel states pi eqbB blk) blks)
                     (id_kernel eqbX)).
    Proof.
      apply sweep_invariant. apply Forall_forall. intros K HK.
      apply in_map_iff in HK. destruct HK as [blk [<- _]]. apply cond_kernel_invariant.
    Qed.

    (* and it is a Markov kernel when every state carries mass *)
    Theorem gibbs_sweep_stochastic (blks : list (X -> B)) :
      (forall x, In x states -> 0 < pi x) ->
      stochastic states
        (compose_all states (map (fun blk => cond_kernel states pi eqbB blk) blks)
                     (id_kernel eqbX)).
    Proof.
      intros Hpos. apply sweep_stochastic. apply Forall_forall. intros K HK.
      apply in_map_iff in HK. destruct HK as [blk [<- _]].
      intros x Hx. apply cond_kernel_stochastic.
      intros Hm. apply (block_mass_zero blk x Hx) in Hm. specialize (Hpos x Hx). lra.
    Qed.
  End Sweep.
End GibbsDistProofs.

(* ---- (5) product spaces ---- *)
Section Product.
  Context {V : Type}.
  Variable dflt : V.

  (* a coordinate update stays inside the block of that coordinate *)
  Lemma blk_upd i (v : V) x : upd i dflt (upd i v x) = upd i dflt x.
  Proof. revert i; induction x as [|h t IH]; intros [|i]; simpl; auto. f_equal. apply IH. Qed.

  (* two states are in the same block iff they agree off coordinate i *)
  Lemma blk_same_iff i (x y : list V) : length x = length y ->
    (upd i dflt x = upd i dflt y <-> forall j, j <> i -> nth j x dflt = nth j y dflt).
  Proof.
    intros Hl. split.
    - intros H j Hj.
      rewrite <- (nth_upd_other i j dflt dflt x) by auto.
      rewrite H. apply nth_upd_other. auto.
    - intros H. apply (list_eq_nth dflt).
      + rewrite !upd_length. exact Hl.
      + intros k Hk. rewrite upd_length in Hk.
        destruct (Nat.eq_dec k i) as [->|Hne].
        * rewrite !nth_upd_same by lia. reflexivity.
        * rewrite !nth_upd_other by auto. apply H. exact Hne.
  Qed.

  (* so a state in the block of x differs from x at coordinate i only *)
  Lemma blk_same_upd i (x x' : list V) : length x' = length x ->
    upd i dflt x' = upd i dflt x -> x' = upd i (nth i x' dflt) x.
  Proof.
    intros Hl H. apply (list_eq_nth dflt).
    - rewrite upd_length. exact Hl.
    - intros k Hk. destruct (Nat.eq_dec k i) as [->|Hne].
      + rewrite nth_upd_same by lia. reflexivity.
      + rewrite nth_upd_other by auto.
        apply (proj1 (blk_same_iff i x' x Hl) H). exact Hne.
  Qed.

  Variable eqbV : V -> V -> bool.
  Hypothesis eqbV_spec : forall a b, eqbV a b = true <-> a = b.

  Lemma list_eqb_spec (l1 l2 : list V) : list_eqb eqbV l1 l2 = true <-> l1 = l2.
  Proof.
    revert l2; induction l1 as [|a t IH]; intros [|b t2]; simpl; split; intros H;
      try discriminate; try reflexivity.
    - apply andb_true_iff in H. destruct H as [H1 H2].
      apply eqbV_spec in H1. apply IH in H2. subst. reflexivity.
    - inversion H; subst. apply andb_true_iff. split; [apply eqbV_spec | apply IH]; reflexivity.
  Qed.

  Variable states : list (list V).
  Variable pi : list V -> R.
  Hypothesis pi_nonneg : forall x, 0 <= pi x.
  Hypothesis states_nodup : NoDup states.

  (* the coordinate-i full conditional writes to coordinate i only *)
  Theorem coord_kernel_writes_coord i x x' : length x' = length x ->
    cond_kernel states pi (list_eqb eqbV) (blk_coord dflt i) x x' <> 0 ->
    x' = upd i (nth i x' dflt) x.
  Proof.
    intros Hl H. apply blk_same_upd; [exact Hl|].
    exact (cond_kernel_support states pi (list_eqb eqbV) list_eqb_spec (blk_coord dflt i) x x' H).
  Qed.

  (* the Gibbs step over coordinates 0..d-1, each from its exact full conditional given the
     current values of the others, leaves the joint invariant *)
  Theorem gibbs_kernel_invariant d : invariant states pi (gibbs_kernel eqbV dflt states pi d).
  Proof.
    unfold gibbs_kernel.
    rewrite <- (map_map (blk_coord dflt)
                        (fun blk => cond_kernel states pi (list_eqb eqbV) blk)).
    apply (gibbs_sweep_invariant states pi (list_eqb eqbV) list_eqb_spec pi_nonneg
             (list_eqb eqbV) list_eqb_spec states_nodup).
  Qed.

  Theorem gibbs_kernel_stochastic d : (forall x, In x states -> 0 < pi x) ->
    stochastic states (gibbs_kernel eqbV dflt states pi d).
  Proof.
    intros Hpos. unfold gibbs_kernel.
    rewrite <- (map_map (blk_coord dflt)
                        (fun blk => cond_kernel states pi (list_eqb eqbV) blk)).
    apply (gibbs_sweep_stochastic states pi (list_eqb eqbV) list_eqb_spec pi_nonneg
             (list_eqb eqbV) list_eqb_spec states_nodup); exact Hpos.
  Qed.
End Product.

(* ---- the example space: hypotheses hold; concrete values; the stale variant fails ---- *)
Lemma nat_eqb_spec (a b : nat) : Nat.eqb a b = true <-> a = b.
Proof. apply Nat.eqb_eq. Qed.

Lemma ex_states_nodup : NoDup ex_states.
Proof.
  unfold ex_states.
  repeat (constructor; [simpl; intros H; repeat (destruct H as [H|H]; try discriminate); exact H|]).
  constructor.
Qed.

Lemma ex_pi_nonneg x : 0 <= ex_pi x.
Proof. unfold ex_pi. destruct (Nat.eqb _ _); lra. Qed.

Lemma ex_pi_pos x : 0 < ex_pi x.
Proof. unfold ex_pi. destruct (Nat.eqb _ _); lra. Qed.

Ltac ex_compute :=
  cbv [stale_kernel gibbs_kernel compose_all compose id_kernel cond_kernel block_mass blk_coord
       ex_states ex_pi sumR fold_right map seq list_eqb upd nth Nat.eqb andb].

(* from (0,0), coordinate 0 moves to 1 with probability pi(1,0)/(pi(0,0)+pi(1,0)) = 1/5 *)
Lemma ex_cond_value :
  cond_kernel ex_states ex_pi (list_eqb Nat.eqb) (blk_coord 0%nat 0) [0;0]%nat [1;0]%nat = 1/5.
Proof. ex_compute. field. Qed.

(* Sum_x pi(x) K_stale(x,(0,0)) = 4*(4/5*4/5) + 1*(1/5*4/5) + 1*(4/5*1/5) + 4*(1/5*1/5) = 76/25 *)
Lemma ex_stale_value :
  sumR (fun x => ex_pi x * stale_kernel Nat.eqb 0%nat ex_states ex_pi x [0;0]%nat) ex_states
  = 76/25.
Proof. ex_compute. field. Qed.

Theorem stale_not_invariant :
  ~ invariant ex_states ex_pi (stale_kernel Nat.eqb 0%nat ex_states ex_pi).
Proof.
  intros H. specialize (H [0;0]%nat (or_introl eq_refl)).
  rewrite ex_stale_value in H. unfold ex_pi in H. simpl in H. lra.
Qed.

(* the stale variant is nevertheless a Markov kernel (row sums 1): the failure is of
   invariance, not of normalisation *)
Lemma ex_stale_row (x : list nat) : In x ex_states ->
  sumR (stale_kernel Nat.eqb 0%nat ex_states ex_pi x) ex_states = 1.
Proof.
  intros H. unfold ex_states in H. simpl in H.
  repeat (destruct H as [<-|H]; [ex_compute; field|]). contradiction.
Qed.
