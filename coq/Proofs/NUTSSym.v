(* Symmetry of the NUTS doubling process on trajectory indices (Model/NUTSSym.v), and its link to
   the doubling loop of Model/NUTS.v instantiated at P := Z, leap := ileap.

   A trajectory B of 2^j consecutive indices built from index 0 by the direction sequence vs is
   built from EVERY index t of B by exactly one direction sequence of the same length
   (tree_symmetry); among the 2^j sequences of length j exactly one builds B from t
   (tree_symmetry_count).  So, directions being fair independent coin flips, B is selected with
   the same probability 2^-j from each of its points. *)
From Coq Require Import ZArith List Lia Bool.
From MiniMcmc Require Import Base.Util Model.NUTS Proofs.NUTS Model.NUTSSym.
Import ListNotations.
Local Open Scope Z_scope.

(* ---------------------------------------------------------------- powers of two *)
Lemma pow2Z_pos (j : nat) : 0 < 2 ^ Z.of_nat j.
Proof. apply Z.pow_pos_nonneg; lia. Qed.

Lemma pow2Z_S (j : nat) : 2 ^ Z.of_nat (S j) = 2 * 2 ^ Z.of_nat j.
Proof. rewrite Nat2Z.inj_succ, Z.pow_succ_r by lia. reflexivity. Qed.

Lemma pow2Z_0 : 2 ^ Z.of_nat 0 = 1.
Proof. reflexivity. Qed.

Lemma pow2Z_of_nat (j : nat) : Z.of_nat (2 ^ j) = 2 ^ Z.of_nat j.
Proof. rewrite Nat2Z.inj_pow. reflexivity. Qed.

(* ---------------------------------------------------------------- spanL / spanR *)
Lemma spanL_S : forall vs j0, spanL (S j0) vs = 2 * spanL j0 vs.
Proof.
  induction vs as [|v r IH]; intros j0; cbn [spanL]; [reflexivity|].
  rewrite (IH (S j0)), (pow2Z_S j0). destruct v; lia.
Qed.

Lemma spanR_S : forall vs j0, spanR (S j0) vs = 2 * spanR j0 vs.
Proof.
  induction vs as [|v r IH]; intros j0; cbn [spanR]; [reflexivity|].
  rewrite (IH (S j0)), (pow2Z_S j0). destruct v; lia.
Qed.

Lemma spanL_scale : forall j0 vs, spanL j0 vs = 2 ^ Z.of_nat j0 * spanL 0 vs.
Proof.
  induction j0 as [|j0 IH]; intros vs.
  - rewrite pow2Z_0. lia.
  - rewrite spanL_S, IH, pow2Z_S. lia.
Qed.

Lemma spanR_scale : forall j0 vs, spanR j0 vs = 2 ^ Z.of_nat j0 * spanR 0 vs.
Proof.
  induction j0 as [|j0 IH]; intros vs.
  - rewrite pow2Z_0. lia.
  - rewrite spanR_S, IH, pow2Z_S. lia.
Qed.

Lemma spanL_nonneg : forall vs j0, 0 <= spanL j0 vs.
Proof.
  induction vs as [|v r IH]; intros j0; cbn [spanL]; [lia|].
  pose proof (IH (S j0)) as Hr. pose proof (pow2Z_pos j0) as Hp. destruct v; lia.
Qed.

Lemma spanR_nonneg : forall vs j0, 0 <= spanR j0 vs.
Proof.
  induction vs as [|v r IH]; intros j0; cbn [spanR]; [lia|].
  pose proof (IH (S j0)) as Hr. pose proof (pow2Z_pos j0) as Hp. destruct v; lia.
Qed.

Lemma spanL_app : forall a b j0,
  spanL j0 (a ++ b) = spanL j0 a + spanL (j0 + length a) b.
Proof.
  induction a as [|v a IH]; intros b j0; cbn [app spanL length].
  - rewrite Nat.add_0_r. lia.
  - rewrite (IH b (S j0)).
    replace (S j0 + length a)%nat with (j0 + S (length a))%nat by lia. lia.
Qed.

Lemma spanR_app : forall a b j0,
  spanR j0 (a ++ b) = spanR j0 a + spanR (j0 + length a) b.
Proof.
  induction a as [|v a IH]; intros b j0; cbn [app spanR length].
  - rewrite Nat.add_0_r. lia.
  - rewrite (IH b (S j0)).
    replace (S j0 + length a)%nat with (j0 + S (length a))%nat by lia. lia.
Qed.

(* (1) the doublings vs, the first at depth j0, add 2^j0 + ... + 2^(j0 + length vs - 1) points *)
Lemma span_sum : forall j0 vs,
  spanL j0 vs + spanR j0 vs = 2 ^ Z.of_nat j0 * (2 ^ Z.of_nat (length vs) - 1).
Proof.
  intros j0 vs; revert j0.
  induction vs as [|v r IH]; intros j0; cbn [spanL spanR length].
  - rewrite pow2Z_0. lia.
  - pose proof (IH (S j0)) as Hr. rewrite (pow2Z_S j0) in Hr. rewrite (pow2Z_S (length r)).
    destruct v; lia.
Qed.

Lemma span_size : forall t vs,
  snd (span_from t vs) - fst (span_from t vs) + 1 = 2 ^ Z.of_nat (length vs) /\
  fst (span_from t vs) <= t <= snd (span_from t vs).
Proof.
  intros t vs. unfold span_from. cbn [fst snd].
  pose proof (span_sum 0 vs) as Hs. rewrite pow2Z_0 in Hs.
  pose proof (spanL_nonneg vs 0) as Hl. pose proof (spanR_nonneg vs 0) as Hr.
  lia.
Qed.

(* (2) *)
Lemma spanL_range : forall vs, 0 <= spanL 0 vs < 2 ^ Z.of_nat (length vs).
Proof.
  intros vs.
  pose proof (span_sum 0 vs) as Hs. rewrite pow2Z_0 in Hs.
  pose proof (spanL_nonneg vs 0) as Hl. pose proof (spanR_nonneg vs 0) as Hr.
  lia.
Qed.

Lemma spanR_range : forall vs, 0 <= spanR 0 vs < 2 ^ Z.of_nat (length vs).
Proof.
  intros vs.
  pose proof (span_sum 0 vs) as Hs. rewrite pow2Z_0 in Hs.
  pose proof (spanL_nonneg vs 0) as Hl. pose proof (spanR_nonneg vs 0) as Hr.
  lia.
Qed.

(* (3) spanL 0 is a bijection from direction sequences of length j onto [0, 2^j): the
   directions are the (negated) binary digits *)
Lemma spanL_exists : forall j k, 0 <= k < 2 ^ Z.of_nat j ->
  exists vs, length vs = j /\ spanL 0 vs = k.
Proof.
  induction j as [|j IH]; intros k Hk.
  - exists []. split; [reflexivity|]. rewrite pow2Z_0 in Hk. cbn [spanL]. lia.
  - rewrite pow2Z_S in Hk.
    assert (H2 : 2 <> 0) by lia.
    pose proof (Z.div_mod k 2 H2) as Hdm.
    assert (H2' : 0 < 2) by lia.
    pose proof (Z.mod_pos_bound k 2 H2') as Hmb.
    destruct (IH (k / 2)) as (r & Hlen & Hr); [lia|].
    exists ((k mod 2 =? 0) :: r). split; [cbn [length]; rewrite Hlen; reflexivity|].
    cbn [spanL]. rewrite spanL_S, Hr, pow2Z_0.
    destruct (Z.eqb_spec (k mod 2) 0) as [E|E]; lia.
Qed.

Lemma spanL_inj : forall vs vs', length vs = length vs' -> spanL 0 vs = spanL 0 vs' -> vs = vs'.
Proof.
  induction vs as [|v r IH]; intros [|v' r'] Hlen Heq; try discriminate Hlen; [reflexivity|].
  cbn [length] in Hlen. cbn [spanL] in Heq. rewrite !spanL_S, pow2Z_0 in Heq.
  assert (Hv : v = v') by (destruct v, v'; try reflexivity; exfalso; lia).
  subst v'. f_equal. apply IH; [lia|]. destruct v; lia.
Qed.

Lemma spanL_exists_gen : forall j0 j k, 0 <= k < 2 ^ Z.of_nat j ->
  exists vs, length vs = j /\ spanL j0 vs = 2 ^ Z.of_nat j0 * k.
Proof.
  intros j0 j k Hk. destruct (spanL_exists j k Hk) as (vs & Hlen & Hs).
  exists vs. split; [exact Hlen|]. rewrite spanL_scale, Hs. reflexivity.
Qed.

Lemma spanL_inj_gen : forall j0 vs vs',
  length vs = length vs' -> spanL j0 vs = spanL j0 vs' -> vs = vs'.
Proof.
  intros j0 vs vs' Hlen Heq. apply spanL_inj; [exact Hlen|].
  rewrite (spanL_scale j0 vs), (spanL_scale j0 vs') in Heq.
  pose proof (pow2Z_pos j0) as Hp.
  apply (Z.mul_reg_l _ _ (2 ^ Z.of_nat j0)); [lia|exact Heq].
Qed.

(* the right extent is determined by the left one *)
Lemma spanR_of_spanL : forall j0 vs,
  spanR j0 vs = 2 ^ Z.of_nat j0 * (2 ^ Z.of_nat (length vs) - 1) - spanL j0 vs.
Proof. intros j0 vs. pose proof (span_sum j0 vs) as Hs. lia. Qed.

(* ---------------------------------------------------------------- (4) symmetry *)
(* from every index t of the interval built from s by vs there is exactly one direction
   sequence of the same length that builds the same interval *)
Theorem tree_symmetry_from : forall vs s t,
  fst (span_from s vs) <= t <= snd (span_from s vs) ->
  exists! vs', length vs' = length vs /\ span_from t vs' = span_from s vs.
Proof.
  intros vs s t Ht. unfold span_from in *. cbn [fst snd] in Ht.
  pose proof (span_sum 0 vs) as Hs. rewrite pow2Z_0 in Hs.
  pose proof (spanL_nonneg vs 0) as Hl. pose proof (spanR_nonneg vs 0) as Hr.
  destruct (spanL_exists (length vs) (t - s + spanL 0 vs)) as (vs' & Hlen & Hl'); [lia|].
  exists vs'. split.
  - split; [exact Hlen|].
    pose proof (span_sum 0 vs') as Hs'. rewrite Hlen, pow2Z_0 in Hs'.
    f_equal; lia.
  - intros vs'' [Hlen'' Heq]. injection Heq as H1 H2.
    apply spanL_inj; [congruence|lia].
Qed.

Theorem tree_symmetry : forall vs t,
  let j := length vs in
  let B := span_from 0 vs in
  fst B <= t <= snd B ->
  exists! vs', length vs' = j /\ span_from t vs' = B.
Proof. intros vs t j B Ht. exact (tree_symmetry_from vs 0 t Ht). Qed.

(* ---- counting version ---- *)
Lemma in_all_dirs : forall j vs, In vs (all_dirs j) <-> length vs = j.
Proof.
  induction j as [|j IH]; intros vs; cbn [all_dirs].
  - split.
    + intros [<-|[]]. reflexivity.
    + destruct vs as [|v r]; [left; reflexivity|discriminate].
  - rewrite in_app_iff, !in_map_iff. split.
    + intros [(r & <- & Hr)|(r & <- & Hr)]; cbn [length]; f_equal; apply IH; exact Hr.
    + destruct vs as [|[|] r]; [discriminate| |]; intros H; injection H as H.
      * left. exists r. split; [reflexivity|]. apply IH. exact H.
      * right. exists r. split; [reflexivity|]. apply IH. exact H.
Qed.

Lemma all_dirs_length : forall j, Z.of_nat (length (all_dirs j)) = 2 ^ Z.of_nat j.
Proof.
  induction j as [|j IH]; cbn [all_dirs]; [reflexivity|].
  rewrite app_length, !map_length, Nat2Z.inj_add, IH, pow2Z_S. lia.
Qed.

Lemma NoDup_map_cons_ (b : bool) (l : list (list bool)) : NoDup l -> NoDup (map (cons b) l).
Proof.
  intros H. induction H as [|x l Hnotin Hnd IH]; cbn [map]; constructor; [|exact IH].
  rewrite in_map_iff. intros (y & E & Hy). injection E as E. subst y. exact (Hnotin Hy).
Qed.

Lemma NoDup_app_ {X} (l1 l2 : list X) :
  NoDup l1 -> NoDup l2 -> (forall x, In x l1 -> ~ In x l2) -> NoDup (l1 ++ l2).
Proof.
  intros H1 H2. induction H1 as [|x l Hnotin Hnd IH]; intros Hdis; cbn [app]; [exact H2|].
  constructor.
  - rewrite in_app_iff. intros [Hx|Hx]; [exact (Hnotin Hx)|].
    exact (Hdis x (or_introl eq_refl) Hx).
  - apply IH. intros y Hy. apply Hdis. right. exact Hy.
Qed.

Lemma all_dirs_NoDup : forall j, NoDup (all_dirs j).
Proof.
  induction j as [|j IH]; cbn [all_dirs].
  - constructor; [intros []|constructor].
  - apply NoDup_app_; [apply NoDup_map_cons_; exact IH|apply NoDup_map_cons_; exact IH|].
    intros x Hx Hx'. apply in_map_iff in Hx. apply in_map_iff in Hx'.
    destruct Hx as (y & <- & _). destruct Hx' as (y' & E & _). discriminate E.
Qed.

Lemma filter_none_ {X} (f : X -> bool) (l : list X) :
  (forall y, In y l -> f y = false) -> filter f l = [].
Proof.
  induction l as [|a l IH]; intros H; cbn [filter]; [reflexivity|].
  rewrite (H a (or_introl eq_refl)). apply IH. intros y Hy. apply H. right. exact Hy.
Qed.

Lemma filter_unique_length {X} (f : X -> bool) (l : list X) (x : X) :
  NoDup l -> In x l -> f x = true -> (forall y, In y l -> f y = true -> y = x) ->
  length (filter f l) = 1%nat.
Proof.
  induction l as [|a l IH]; intros Hnd Hin Hfx Huniq; [destruct Hin|].
  inversion Hnd as [|a' l' Hnotin Hnd']; subst a' l'.
  cbn [filter]. destruct (f a) eqn:Efa.
  - assert (Hax : a = x) by (apply Huniq; [left; reflexivity|exact Efa]). subst a.
    rewrite filter_none_; [reflexivity|].
    intros y Hy. destruct (f y) eqn:Efy; [|reflexivity].
    exfalso. apply Hnotin. rewrite <- (Huniq y (or_intror Hy) Efy). exact Hy.
  - destruct Hin as [Hax|Hin]; [congruence|].
    apply IH; [exact Hnd'|exact Hin|exact Hfx|].
    intros y Hy. apply Huniq. right. exact Hy.
Qed.

Lemma zz_eqb_eq : forall a b, zz_eqb a b = true <-> a = b.
Proof.
  intros [a1 a2] [b1 b2]. unfold zz_eqb. cbn [fst snd].
  rewrite andb_true_iff, !Z.eqb_eq. split.
  - intros [-> ->]. reflexivity.
  - intros E. injection E as E1 E2. split; assumption.
Qed.

Lemma builds_spec : forall t B vs, builds t B vs = true <-> span_from t vs = B.
Proof. intros t B vs. unfold builds. apply zz_eqb_eq. Qed.

(* among the 2^j direction sequences of length j exactly one builds B from t *)
Theorem tree_symmetry_count_from : forall vs s t,
  fst (span_from s vs) <= t <= snd (span_from s vs) ->
  length (filter (builds t (span_from s vs)) (all_dirs (length vs))) = 1%nat /\
  Z.of_nat (length (all_dirs (length vs))) = 2 ^ Z.of_nat (length vs).
Proof.
  intros vs s t Ht. split; [|apply all_dirs_length].
  destruct (tree_symmetry_from vs s t Ht) as (vs' & [Hlen Hb] & Huniq).
  apply (filter_unique_length _ _ vs').
  - apply all_dirs_NoDup.
  - apply in_all_dirs. exact Hlen.
  - apply builds_spec. exact Hb.
  - intros y Hy Hfy. symmetry. apply Huniq. split.
    + apply in_all_dirs. exact Hy.
    + apply builds_spec. exact Hfy.
Qed.

Theorem tree_symmetry_count : forall vs t,
  let j := length vs in
  let B := span_from 0 vs in
  fst B <= t <= snd B ->
  length (filter (builds t B) (all_dirs j)) = 1%nat /\
  Z.of_nat (length (all_dirs j)) = 2 ^ Z.of_nat j.
Proof. intros vs t j B Ht. exact (tree_symmetry_count_from vs 0 t Ht). Qed.

(* ---------------------------------------------------------------- (5) link to Model/NUTS.v *)
Lemma itraj_true : forall z k, traj ileap true z k = z + Z.of_nat k.
Proof.
  intros z k. unfold traj. induction k as [|k IH]; cbn [iter]; [lia|].
  rewrite IH. unfold ileap. lia.
Qed.

Lemma itraj_false : forall z k, traj ileap false z k = z - Z.of_nat k.
Proof.
  intros z k. unfold traj. induction k as [|k IH]; cbn [iter]; [lia|].
  rewrite IH. unfold ileap. lia.
Qed.

Section NUTSIndex.
  Context {F A U : Type}.
  Variable joint : Z -> F.
  Variable noturn : Z -> Z -> bool.
  Variable flt : F -> F -> bool.
  Variable sub1000 : F -> F.
  Variable alpha1 : Z -> A.
  Variable aadd : A -> A -> A.
  Variable take2 : U -> nat -> nat -> bool.
  Variable logu : F.
  Variable accept_top : U -> nat -> nat -> bool.

  Notation tree := (@tree Z A).
  Notation dbl := (@dbl Z A).
  Notation nst := (@nst Z).
  Notation build_tree := (build_tree ileap joint noturn flt sub1000 alpha1 aadd take2 logu).
  Notation doublings :=
    (doublings ileap joint noturn flt sub1000 alpha1 aadd take2 logu accept_top).
  Notation transition :=
    (transition ileap joint noturn flt sub1000 alpha1 aadd take2 logu accept_top).
  Notation run := (run ileap joint noturn flt sub1000 alpha1 aadd take2 logu accept_top).
  Notation step_st := (step_st accept_top).
  Notation step_rec := (step_rec accept_top).
  Notation step_continue := (step_continue noturn).

  (* the far end of a sub-tree built from index z: z +- (number of leaves); a sub-tree that did
     not stop has 2^j leaves *)
  Lemma build_tree_index : forall j z v us (t : tree) us',
    build_tree j z v us = Some (t, us') ->
    (1 <= tnalpha t <= 2 ^ j)%nat /\
    (ts t = true -> tnalpha t = (2 ^ j)%nat) /\
    (if v then zp t else zm t) =
      (if v then z + Z.of_nat (tnalpha t) else z - Z.of_nat (tnalpha t)) /\
    (if v then zm t else zp t) = (if v then z + 1 else z - 1).
  Proof.
    intros j z v us t us' H.
    destruct (build_tree_leaves _ _ _ _ _ _ _ _ _ _ _ _ _ _ _ H)
      as (m & Hm & _ & Hn & Hf & Hne & Hs).
    subst m. split; [exact Hm|]. split; [exact Hs|].
    unfold far_end in Hf. unfold near_end in Hne.
    destruct v.
    - rewrite itraj_true in Hf, Hne. split; [exact Hf|]. rewrite Hne. lia.
    - rewrite itraj_false in Hf, Hne. split; [exact Hf|]. rewrite Hne. lia.
  Qed.

  (* the loop realises spanL / spanR: all doublings but the last are complete; the last adds
     tnalpha <= 2^depth points, exactly 2^depth if it did not stop *)
  Lemma run_span_gen : forall okU (st : nst) recs stf, run okU st recs stf ->
    exists pre d, recs = pre ++ [d] /\
      (forall d', In d' pre -> ts (d_tree d') = true) /\
      (1 <= tnalpha (d_tree d) <= 2 ^ (depth st + length pre))%nat /\
      (ts (d_tree d) = true -> tnalpha (d_tree d) = (2 ^ (depth st + length pre))%nat) /\
      lo stf = lo st - spanL (depth st) (map d_dir pre)
               - (if d_dir d then 0 else Z.of_nat (tnalpha (d_tree d))) /\
      hi stf = hi st + spanR (depth st) (map d_dir pre)
               + (if d_dir d then Z.of_nat (tnalpha (d_tree d)) else 0).
  Proof.
    intros okU st recs stf Hrun.
    induction Hrun as [st v ac t us us' Hoa Hou Hb Hc
                      |st v ac t us us' recs stf Hoa Hou Hb Hc Hrun IH];
      destruct (build_tree_index _ _ _ _ _ _ Hb) as (Hm & Hs & Hfar & _).
    - exists [], (step_rec st v ac t).
      split; [reflexivity|]. split; [intros d' []|].
      cbn [length map spanL spanR d_dir d_tree step_rec]. unfold NUTS.step_rec.
      cbn [d_dir d_tree]. rewrite Nat.add_0_r.
      split; [exact Hm|]. split; [exact Hs|].
      unfold NUTS.step_st. cbn [lo hi].
      destruct v; split; lia.
    - destruct IH as (pre & d & Hrecs & Hpre & Hmd & Hsd & Hlo & Hhi).
      assert (Hts : ts t = true).
      { unfold NUTS.step_continue in Hc. apply andb_true_iff in Hc. exact (proj1 Hc). }
      specialize (Hs Hts).
      assert (Hpow : Z.of_nat (tnalpha t) = 2 ^ Z.of_nat (depth st))
        by (rewrite Hs; apply pow2Z_of_nat).
      exists (step_rec st v ac t :: pre), d.
      split; [rewrite Hrecs; reflexivity|].
      split; [intros d' [<-|Hin]; [exact Hts|exact (Hpre _ Hin)]|].
      assert (Hdep : (depth (step_st st v ac t) + length pre
                      = depth st + length (step_rec st v ac t :: pre))%nat)
        by (unfold NUTS.step_st; cbn [depth length]; lia).
      rewrite Hdep in Hmd, Hsd.
      split; [exact Hmd|]. split; [exact Hsd|].
      rewrite Hlo, Hhi. unfold NUTS.step_st, NUTS.step_rec.
      cbn [lo hi depth map spanL spanR d_dir].
      destruct v; split; lia.
  Qed.

  Lemma doublings_span_gen : forall fuel (st : nst) dirs tus accs stf recs dr tr ar,
    doublings fuel st dirs tus accs = Some (stf, recs, dr, tr, ar) ->
    exists pre d, recs = pre ++ [d] /\
      (forall d', In d' pre -> ts (d_tree d') = true) /\
      (1 <= tnalpha (d_tree d) <= 2 ^ (depth st + length pre))%nat /\
      (ts (d_tree d) = true -> tnalpha (d_tree d) = (2 ^ (depth st + length pre))%nat) /\
      lo stf = lo st - spanL (depth st) (map d_dir pre)
               - (if d_dir d then 0 else Z.of_nat (tnalpha (d_tree d))) /\
      hi stf = hi st + spanR (depth st) (map d_dir pre)
               + (if d_dir d then Z.of_nat (tnalpha (d_tree d)) else 0).
  Proof.
    intros fuel st dirs tus accs stf recs dr tr ar H.
    apply (run_span_gen (fun _ => True)).
    exact (doublings_run _ _ _ _ _ _ _ _ _ _ (fun _ => True) _ _ _ _ _ _ _ _ _ _
             (Forall_trivial tus) (Forall_trivial accs) H).
  Qed.

  (* only the last recorded tree needs the hypothesis: the earlier ones did not stop, or the
     loop would have ended there *)
  Lemma doublings_span_last : forall fuel (st : nst) dirs tus accs stf recs dr tr ar d0,
    doublings fuel st dirs tus accs = Some (stf, recs, dr, tr, ar) ->
    ts (d_tree (last recs d0)) = true ->
    lo stf = lo st - spanL (depth st) (map d_dir recs) /\
    hi stf = hi st + spanR (depth st) (map d_dir recs).
  Proof.
    intros fuel st dirs tus accs stf recs dr tr ar d0 H Hlast.
    destruct (doublings_span_gen _ _ _ _ _ _ _ _ _ _ H)
      as (pre & d & Hrecs & _ & _ & Hsd & Hlo & Hhi).
    subst recs. rewrite last_last in Hlast. specialize (Hsd Hlast).
    rewrite map_app, spanL_app, spanR_app, map_length. cbn [map spanL spanR].
    rewrite Hlo, Hhi, Hsd, pow2Z_of_nat.
    destruct (d_dir d); split; lia.
  Qed.

  Lemma doublings_span : forall fuel (st : nst) dirs tus accs stf recs dr tr ar,
    doublings fuel st dirs tus accs = Some (stf, recs, dr, tr, ar) ->
    (forall d, In d recs -> ts (d_tree d) = true) ->
    lo stf = lo st - spanL (depth st) (map d_dir recs) /\
    hi stf = hi st + spanR (depth st) (map d_dir recs).
  Proof.
    intros fuel st dirs tus accs stf recs dr tr ar H Hall.
    destruct (doublings_span_gen _ _ _ _ _ _ _ _ _ _ H) as (pre & d & Hrecs & _).
    apply (doublings_span_last _ _ _ _ _ _ _ _ _ _ d H).
    apply Hall. rewrite Hrecs, last_last.
    apply in_or_app. right. left. reflexivity.
  Qed.

  (* a transition started at index z0 *)
  Lemma transition_span : forall fuel z0 dirs tus accs stf recs dr tr ar,
    transition fuel z0 dirs tus accs = Some (stf, recs, dr, tr, ar) ->
    (forall d, In d recs -> ts (d_tree d) = true) ->
    (lo stf, hi stf) = span_from z0 (map d_dir recs) /\
    depth stf = length (map d_dir recs).
  Proof.
    intros fuel z0 dirs tus accs stf recs dr tr ar H Hall.
    unfold NUTS.transition in H.
    destruct (doublings_span _ _ _ _ _ _ _ _ _ _ H Hall) as [Hlo Hhi].
    cbn [lo hi depth] in Hlo, Hhi. unfold span_from. rewrite Hlo, Hhi.
    split; [reflexivity|].
    pose proof (doublings_run _ _ _ _ _ _ _ _ _ _ (fun _ => True) _ _ _ _ _ _ _ _ _ _
                  (Forall_trivial tus) (Forall_trivial accs) H) as Hrun.
    destruct (run_shape _ _ _ _ _ _ _ _ _ _ _ _ _ _ Hrun) as (Hd & _).
    rewrite Hd, map_length. reflexivity.
  Qed.

  Lemma transition_span_0 : forall fuel dirs tus accs stf recs dr tr ar,
    transition fuel 0 dirs tus accs = Some (stf, recs, dr, tr, ar) ->
    (forall d, In d recs -> ts (d_tree d) = true) ->
    (lo stf, hi stf) = span_from 0 (map d_dir recs).
  Proof.
    intros fuel dirs tus accs stf recs dr tr ar H Hall.
    exact (proj1 (transition_span _ _ _ _ _ _ _ _ _ _ H Hall)).
  Qed.

  (* end to end: the trajectory [lo, hi] the model built from z0 with no stopped sub-tree is
     built from each of its points t by exactly one of the 2^depth direction sequences *)
  Theorem transition_symmetry : forall fuel z0 dirs tus accs stf recs dr tr ar,
    transition fuel z0 dirs tus accs = Some (stf, recs, dr, tr, ar) ->
    (forall d, In d recs -> ts (d_tree d) = true) ->
    forall t, lo stf <= t <= hi stf ->
    (exists! vs', length vs' = depth stf /\ span_from t vs' = (lo stf, hi stf)) /\
    length (filter (builds t (lo stf, hi stf)) (all_dirs (depth stf))) = 1%nat /\
    Z.of_nat (length (all_dirs (depth stf))) = 2 ^ Z.of_nat (depth stf).
  Proof.
    intros fuel z0 dirs tus accs stf recs dr tr ar H Hall t Ht.
    destruct (transition_span _ _ _ _ _ _ _ _ _ _ H Hall) as [Hspan Hdep].
    rewrite Hspan, Hdep.
    assert (Ht' : fst (span_from z0 (map d_dir recs)) <= t <= snd (span_from z0 (map d_dir recs)))
      by (rewrite <- Hspan; exact Ht).
    split; [exact (tree_symmetry_from _ _ _ Ht')|].
    exact (tree_symmetry_count_from _ _ _ Ht').
  Qed.
End NUTSIndex.

(* ---------------------------------------------------------------- (6) non-vacuity *)
Example span_from_ex : span_from 0 [true; false; false] = (-6, 1).
Proof. reflexivity. Qed.

(* from the point -3 of that trajectory: the unique rebuilding sequence *)
Example tree_symmetry_ex :
  span_from (-3) [false; false; true] = span_from 0 [true; false; false] /\
  (forall vs', length vs' = 3%nat ->
     span_from (-3) vs' = span_from 0 [true; false; false] -> vs' = [false; false; true]) /\
  length (filter (builds (-3) (span_from 0 [true; false; false])) (all_dirs 3)) = 1%nat /\
  length (all_dirs 3) = 8%nat.
Proof.
  split; [reflexivity|]. split; [|split; reflexivity].
  intros vs' Hlen Hb.
  assert (Ht : fst (span_from 0 [true; false; false]) <= -3
               <= snd (span_from 0 [true; false; false])) by (cbn; lia).
  destruct (tree_symmetry [true; false; false] (-3) Ht) as (w & _ & Huniq).
  rewrite <- (Huniq vs' (conj Hlen Hb)).
  apply Huniq. split; reflexivity.
Qed.

(* the model's loop on indices: no slice/divergence stop, U-turn when the trajectory reaches
   8 points; directions forward, backward, backward *)
Example transition_span_ex :
  match transition (F := unit) (A := unit) (U := unit)
          ileap (fun _ => tt) (fun l h => h - l <? 7) (fun _ _ => true) (fun x => x)
          (fun _ => tt) (fun _ _ => tt) (fun _ _ _ => false) tt (fun _ _ _ => true)
          5 0 [true; false; false; true] (repeat tt 10) (repeat tt 5) with
  | Some (stf, recs, dr, _, _) =>
      (lo stf, hi stf) = (-6, 1) /\ map d_dir recs = [true; false; false] /\
      forallb (fun d => ts (d_tree d)) recs = true /\ dr = [true]
  | None => False
  end.
Proof. vm_compute. repeat split. Qed.
