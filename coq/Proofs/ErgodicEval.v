(* (I) m-step kernels: the m-step kernel kpow m of a stochastic kernel is stochastic, pushes laws like m steps of P,
   keeps P's stationary laws, so Doeblin's theorem applies in blocks of m steps when only kpow m is minorised.
   (II) the exact-rational evaluation of Model/ErgodicEval.v computes, entry by entry, the real-number objects of the
   theorems (Q2R of KQ is K, of vpush is push, of mpow is kpow, of l1Q is l1), hence the Doeblin bound holds between
   the rationals that ergo_eval prints. *)
From MiniMcmc Require Import Base.Num Base.Util Model.MH Proofs.MH Model.Ergodic Proofs.Ergodic Model.ErgodicEval.
From Coq Require Import Qreals Qabs Qminmax Reals Lra Lia List.
Import ListNotations.
Local Close Scope Q_scope.
Local Open Scope R_scope.

(* ------------------------------------------------------------------ (I) m-step kernels *)
Section Blocks.
  Context {St : Type}.
  Variable eqb : St -> St -> bool.
  Hypothesis eqb_spec : forall x y, eqb x y = true <-> x = y.
  Variable states : list St.
  Hypothesis states_nodup : NoDup states.
  Variable P : St -> St -> R.
  Hypothesis P_row : forall x, In x states -> sumR (P x) states = 1.

  Lemma kpow_O x y : kpow eqb states P 0 x y = if eqb x y then 1 else 0.
  Proof. reflexivity. Qed.

  Lemma kpow_S k x y :
    kpow eqb states P (S k) x y = sumR (fun z => P x z * kpow eqb states P k z y) states.
  Proof. reflexivity. Qed.

  (* I1: the m-step kernel is stochastic *)
  Theorem kpow_row_sum : forall m x, In x states -> sumR (kpow eqb states P m x) states = 1.
  Proof.
    induction m as [|k IH]; intros x Hx.
    - rewrite (sumR_ext (kpow eqb states P 0 x) (fun y => if eqb y x then 1 else 0))
        by (intros y; rewrite kpow_O, (eqb_sym eqb eqb_spec x y); reflexivity).
      exact (sumR_indicator eqb eqb_spec (fun _ => 1) x states states_nodup Hx).
    - rewrite (sumR_ext (kpow eqb states P (S k) x)
                        (fun y => sumR (fun z => P x z * kpow eqb states P k z y) states))
        by (intros y; apply kpow_S).
      rewrite (sumR_swap (fun y z => P x z * kpow eqb states P k z y) states states).
      rewrite <- (P_row x Hx). apply sumR_ext_in. intros z Hz.
      rewrite (sumR_scal (P x z) (fun y => kpow eqb states P k z y) states).
      change (sumR (fun y => kpow eqb states P k z y) states) with (sumR (kpow eqb states P k z) states).
      rewrite (IH z Hz). lra.
  Qed.

  (* pushn: composition on the other side, and additivity in the number of steps *)
  Lemma pushn_shift : forall k mu y,
    pushn states P (S k) mu y = pushn states P k (push states P mu) y.
  Proof.
    induction k as [|k IH]; intros mu y; [reflexivity|].
    change (pushn states P (S (S k)) mu) with (push states P (pushn states P (S k) mu)).
    change (pushn states P (S k) (push states P mu))
      with (push states P (pushn states P k (push states P mu))).
    apply push_ext_in. intros x _. apply IH.
  Qed.

  Lemma pushn_add : forall a b mu y,
    pushn states P (a + b) mu y = pushn states P a (pushn states P b mu) y.
  Proof.
    induction a as [|a IH]; intros b mu y; [reflexivity|].
    change (pushn states P (S a + b) mu) with (push states P (pushn states P (a + b) mu)).
    change (pushn states P (S a) (pushn states P b mu))
      with (push states P (pushn states P a (pushn states P b mu))).
    apply push_ext_in. intros x _. apply IH.
  Qed.

  (* I2: one step of the m-step kernel is m steps of P *)
  Theorem push_kpow : forall m mu y, In y states ->
    push states (kpow eqb states P m) mu y = pushn states P m mu y.
  Proof.
    induction m as [|k IH]; intros mu y Hy.
    - unfold push. change (pushn states P 0 mu y) with (mu y).
      rewrite (sumR_ext (fun x => mu x * kpow eqb states P 0 x y) (fun x => if eqb x y then mu x else 0))
        by (intros x; rewrite kpow_O; destruct (eqb x y); lra).
      exact (sumR_indicator eqb eqb_spec mu y states states_nodup Hy).
    - rewrite pushn_shift, <- (IH (push states P mu) y Hy). unfold push.
      rewrite (sumR_ext (fun x => mu x * kpow eqb states P (S k) x y)
                        (fun x => sumR (fun z => mu x * P x z * kpow eqb states P k z y) states)).
      2:{ intros x. rewrite kpow_S.
          rewrite <- (sumR_scal (mu x) (fun z => P x z * kpow eqb states P k z y) states).
          apply sumR_ext. intros z. ring. }
      rewrite (sumR_swap (fun x z => mu x * P x z * kpow eqb states P k z y) states states).
      apply sumR_ext. intros z.
      rewrite <- (sumR_scal_r (kpow eqb states P k z y) (fun x => mu x * P x z) states). reflexivity.
  Qed.

  Variable pi : St -> R.
  Hypothesis pi_stat : forall y, In y states -> push states P pi y = pi y.

  Lemma pushn_stationary : forall m y, In y states -> pushn states P m pi y = pi y.
  Proof.
    induction m as [|k IH]; intros y Hy; [reflexivity|].
    change (pushn states P (S k) pi) with (push states P (pushn states P k pi)).
    rewrite (push_ext_in states P (pushn states P k pi) pi y IH). exact (pi_stat y Hy).
  Qed.

  (* I3: a stationary law of P is stationary for every m-step kernel *)
  Theorem kpow_stationary : forall m y, In y states ->
    push states (kpow eqb states P m) pi y = pi y.
  Proof. intros m y Hy. rewrite (push_kpow m pi y Hy). exact (pushn_stationary m y Hy). Qed.

  (* n steps of the m-step kernel are m * n steps of P *)
  Lemma pushn_kpow (m : nat) : forall n mu y, In y states ->
    pushn states (kpow eqb states P m) n mu y = pushn states P (m * n) mu y.
  Proof.
    induction n as [|n IH]; intros mu y Hy.
    - rewrite Nat.mul_0_r. reflexivity.
    - change (pushn states (kpow eqb states P m) (S n) mu)
        with (push states (kpow eqb states P m) (pushn states (kpow eqb states P m) n mu)).
      rewrite (push_ext_in states (kpow eqb states P m) _ (pushn states P (m * n) mu) y
                 (fun x Hx => IH mu x Hx)).
      rewrite (push_kpow m _ y Hy), <- pushn_add. f_equal. lia.
  Qed.

  (* I4: Doeblin in blocks of m steps, when only the m-step kernel is minorised *)
  Theorem doeblin_blocks (m : nat) (delta : R) :
    (forall x y, In x states -> In y states -> delta <= kpow eqb states P m x y) ->
    forall mu : St -> R, sumR mu states = sumR pi states ->
    forall n, l1 states (pushn states P (m * n) mu) pi
              <= (1 - INR (length states) * delta) ^ n * l1 states mu pi.
  Proof.
    intros Hminor mu Hmass n.
    rewrite (l1_ext_in states (pushn states P (m * n) mu) (pushn states (kpow eqb states P m) n mu) pi pi)
      by (intros x Hx; first [symmetry; apply pushn_kpow; exact Hx|reflexivity]).
    exact (doeblin_geometric states (kpow eqb states P m) (kpow_row_sum m) delta Hminor pi
             (kpow_stationary m) mu Hmass n).
  Qed.
End Blocks.

(* ------------------------------------------------------------------ (II) Q2R of the operations *)
Lemma Q2R_red (a : Q) : Q2R (Qred a) = Q2R a.
Proof. apply Qeq_eqR. apply Qred_correct. Qed.

Lemma Q2R_qadd (a b : Q) : Q2R (qadd a b) = Q2R a + Q2R b.
Proof. unfold qadd. rewrite Q2R_red. apply Q2R_plus. Qed.

Lemma Q2R_qmul (a b : Q) : Q2R (qmul a b) = Q2R a * Q2R b.
Proof. unfold qmul. rewrite Q2R_red. apply Q2R_mult. Qed.

Lemma Q2R_min (a b : Q) : Q2R (Qmin a b) = Rmin (Q2R a) (Q2R b).
Proof.
  destruct (Q.min_spec_le a b) as [[Hle Heq]|[Hle Heq]]; rewrite (Qeq_eqR _ _ Heq); apply Qle_Rle in Hle.
  - symmetry. apply Rmin_left. exact Hle.
  - symmetry. apply Rmin_right. exact Hle.
Qed.

Lemma Q2R_abs (a : Q) : Q2R (Qabs a) = Rabs (Q2R a).
Proof.
  apply (Qabs_case a (fun r => Q2R r = Rabs (Q2R a))); intros H; apply Qle_Rle in H;
    rewrite RMicromega.Q2R_0 in H.
  - symmetry. apply Rabs_pos_eq. exact H.
  - rewrite Q2R_opp. symmetry. apply Rabs_left1. exact H.
Qed.

Lemma Q2R_inject_nat (n : nat) : Q2R (inject_Z (Z.of_nat n)) = INR n.
Proof.
  unfold Q2R. cbn [Qnum Qden inject_Z]. rewrite Rinv_1, Rmult_1_r. symmetry. apply INR_IZR_INZ.
Qed.

Lemma Q2R_qpow (a : Q) (n : nat) : Q2R (qpow a n) = Q2R a ^ n.
Proof.
  induction n as [|n IH].
  - cbn [qpow pow]. apply RMicromega.Q2R_0 || apply RMicromega.Q2R_1.
  - cbn [qpow pow]. rewrite Q2R_qmul, IH. reflexivity.
Qed.

(* II1: sums *)
Lemma qsuml_Q2R (l : list Q) : Q2R (qsuml l) = fold_right Rplus 0 (map Q2R l).
Proof.
  induction l as [|a l IH].
  - cbn [qsuml fold_right map]. apply RMicromega.Q2R_0.
  - change (qsuml (a :: l)) with (qadd a (qsuml l)). rewrite Q2R_qadd, IH. reflexivity.
Qed.

Lemma qsuml_map_sumR {A : Type} (f : A -> Q) (l : list A) :
  Q2R (qsuml (map f l)) = sumR (fun i => Q2R (f i)) l.
Proof.
  induction l as [|a l IH].
  - cbn [qsuml fold_right map sumR]. apply RMicromega.Q2R_0.
  - change (qsuml (map f (a :: l))) with (qadd (f a) (qsuml (map f l))).
    rewrite Q2R_qadd, IH. reflexivity.
Qed.

(* entries of tables built by map over seq *)
Lemma nth_map_seq {A : Type} (f : nat -> A) (N i : nat) (d : A) :
  (i < N)%nat -> nth i (map f (seq 0 N)) d = f i.
Proof.
  intros Hi. rewrite (nth_indep (map f (seq 0 N)) d (f 0%nat)) by (rewrite map_length, seq_length; exact Hi).
  rewrite map_nth, seq_nth by exact Hi. reflexivity.
Qed.

Lemma seq_nodup (N : nat) : NoDup (seq 0 N).
Proof. apply seq_NoDup. Qed.

Lemma in_seq0 (N i : nat) : In i (seq 0 N) <-> (i < N)%nat.
Proof. rewrite in_seq. lia. Qed.

Lemma nat_eqb_spec : forall x y : nat, Nat.eqb x y = true <-> x = y.
Proof. exact Nat.eqb_eq. Qed.

Definition wfmat (N : nat) (P : list (list Q)) : Prop :=
  length P = N /\ Forall (fun r => length r = N) P.

Definition vR (mu : list Q) : nat -> R := fun i => Q2R (qnth mu i).
Definition PR (P : list (list Q)) : nat -> nat -> R := fun i j => Q2R (mnth P i j).

(* ------------------------------------------------------------------ the MH kernel *)
Section TableLinks.
  Variable N : nat.
  Variable w : list Q.
  Variable q : list (list Q).
  Hypothesis w_pos : forall i, (i < N)%nat -> 0 < vR w i.

  Lemma KoffQ_is_Koff x y : (x < N)%nat ->
    Q2R (KoffQ w q x y) = Koff Nat.eqb (vR w) (PR q) x y.
  Proof.
    intros Hx. unfold KoffQ, Koff. destruct (Nat.eqb x y); [apply RMicromega.Q2R_0|].
    rewrite Q2R_qmul. unfold accQ, acc, PR, vR.
    destruct (Qeq_dec (mnth q x y) 0) as [Hz|Hnz].
    - rewrite (Qeq_eqR _ _ Hz), RMicromega.Q2R_0. lra.
    - f_equal. rewrite Q2R_min, RMicromega.Q2R_1, Q2R_red. f_equal.
      rewrite Q2R_div.
      + rewrite !Q2R_mult. reflexivity.
      + intros Hden. apply Qeq_eqR in Hden. rewrite Q2R_mult, RMicromega.Q2R_0 in Hden.
        apply Rmult_integral in Hden. destruct Hden as [Hw|Hq].
        * pose proof (w_pos x Hx) as Hp. unfold vR in Hp. lra.
        * apply Hnz. apply eqR_Qeq. rewrite Hq, RMicromega.Q2R_0. reflexivity.
  Qed.

  (* II2 *)
  Theorem KQ_is_K x y : (x < N)%nat -> (y < N)%nat ->
    Q2R (KQ N w q x y) = K Nat.eqb (seq 0 N) (vR w) (PR q) x y.
  Proof.
    intros Hx Hy. unfold KQ, K. rewrite Q2R_qadd, (KoffQ_is_Koff x y Hx). f_equal.
    destruct (Nat.eqb x y); [|apply RMicromega.Q2R_0].
    rewrite Q2R_red, Q2R_minus, RMicromega.Q2R_1, qsuml_map_sumR. f_equal.
    apply sumR_ext. intros z. apply KoffQ_is_Koff. exact Hx.
  Qed.

  (* II3 *)
  Lemma Kmat_entry x y : (x < N)%nat -> (y < N)%nat -> mnth (Kmat N w q) x y = KQ N w q x y.
  Proof.
    intros Hx Hy. unfold mnth, Kmat, qnth.
    rewrite (nth_map_seq (fun x => map (KQ N w q x) (seq 0 N)) N x [] Hx).
    exact (nth_map_seq (KQ N w q x) N y 0%Q Hy).
  Qed.

  Lemma Kmat_wf : wfmat N (Kmat N w q).
  Proof.
    unfold wfmat, Kmat. split; [rewrite map_length, seq_length; reflexivity|].
    apply Forall_forall. intros r Hr. apply in_map_iff in Hr. destruct Hr as [x [<- _]].
    rewrite map_length, seq_length. reflexivity.
  Qed.

  Lemma Kmat_is_K x y : (x < N)%nat -> (y < N)%nat ->
    PR (Kmat N w q) x y = K Nat.eqb (seq 0 N) (vR w) (PR q) x y.
  Proof. intros Hx Hy. unfold PR. rewrite (Kmat_entry x y Hx Hy). exact (KQ_is_K x y Hx Hy). Qed.
End TableLinks.

(* ------------------------------------------------------------------ push, l1, powers, minorisation *)
Section MatLinks.
  Variable N : nat.

  Lemma vpush_entry P mu y : (y < N)%nat ->
    qnth (vpush N P mu) y = qsuml (map (fun x => qmul (qnth mu x) (mnth P x y)) (seq 0 N)).
  Proof.
    intros Hy. unfold qnth at 1, vpush.
    exact (nth_map_seq (fun y => qsuml (map (fun x => qmul (qnth mu x) (mnth P x y)) (seq 0 N))) N y 0%Q Hy).
  Qed.

  Lemma vpush_length P mu : length (vpush N P mu) = N.
  Proof. unfold vpush. rewrite map_length, seq_length. reflexivity. Qed.

  (* II4 *)
  Theorem vpush_is_push P mu y : (y < N)%nat ->
    Q2R (qnth (vpush N P mu) y) = push (seq 0 N) (PR P) (vR mu) y.
  Proof.
    intros Hy. rewrite (vpush_entry P mu y Hy), qsuml_map_sumR. unfold push.
    apply sumR_ext. intros x. apply Q2R_qmul.
  Qed.

  Theorem vpushn_is_pushn P : forall n mu y, (y < N)%nat ->
    Q2R (qnth (vpushn N P n mu) y) = pushn (seq 0 N) (PR P) n (vR mu) y.
  Proof.
    induction n as [|n IH]; intros mu y Hy; [reflexivity|].
    change (vpushn N P (S n) mu) with (vpush N P (vpushn N P n mu)).
    change (pushn (seq 0 N) (PR P) (S n) (vR mu))
      with (push (seq 0 N) (PR P) (pushn (seq 0 N) (PR P) n (vR mu))).
    rewrite (vpush_is_push P _ y Hy). apply push_ext_in. intros x Hx.
    unfold vR at 1. apply IH. apply in_seq0. exact Hx.
  Qed.

  (* II5 *)
  Theorem l1Q_is_l1 mu nu : Q2R (l1Q N mu nu) = l1 (seq 0 N) (vR mu) (vR nu).
  Proof.
    unfold l1Q, l1. rewrite qsuml_map_sumR. apply sumR_ext. intros x.
    rewrite Q2R_abs, Q2R_minus. reflexivity.
  Qed.

  Lemma ident_entry x y : (x < N)%nat -> (y < N)%nat ->
    mnth (ident N) x y = if Nat.eqb x y then 1%Q else 0%Q.
  Proof.
    intros Hx Hy. unfold mnth, ident, qnth.
    rewrite (nth_map_seq (fun x => map (fun y => if Nat.eqb x y then 1%Q else 0%Q) (seq 0 N)) N x [] Hx).
    exact (nth_map_seq (fun y => if Nat.eqb x y then 1%Q else 0%Q) N y 0%Q Hy).
  Qed.

  Lemma mmul_entry A B x y : (x < length A)%nat ->
    mnth (mmul N A B) x y = qnth (vpush N B (nth x A [])) y.
  Proof.
    intros Hx. unfold mnth at 1, mmul.
    rewrite (nth_indep (map (fun row => vpush N B row) A) [] (vpush N B [])) by (rewrite map_length; exact Hx).
    rewrite (map_nth (fun row => vpush N B row) A [] x). reflexivity.
  Qed.

  Lemma ident_wf : wfmat N (ident N).
  Proof.
    unfold wfmat, ident. split; [rewrite map_length, seq_length; reflexivity|].
    apply Forall_forall. intros r Hr. apply in_map_iff in Hr. destruct Hr as [x [<- _]].
    rewrite map_length, seq_length. reflexivity.
  Qed.

  Lemma mmul_wf A B : length A = N -> wfmat N (mmul N A B).
  Proof.
    intros HA. unfold wfmat, mmul. split; [rewrite map_length; exact HA|].
    apply Forall_forall. intros r Hr. apply in_map_iff in Hr. destruct Hr as [x [<- _]].
    apply vpush_length.
  Qed.

  Lemma mpow_wf P m : wfmat N P -> wfmat N (mpow N P m).
  Proof.
    intros [HP _]. destruct m as [|k]; [apply ident_wf|].
    change (mpow N P (S k)) with (mmul N P (mpow N P k)). apply mmul_wf. exact HP.
  Qed.

  (* II6: the matrix power is the m-step kernel *)
  Theorem mpow_is_kpow P : wfmat N P -> forall m x y, (x < N)%nat -> (y < N)%nat ->
    Q2R (mnth (mpow N P m) x y) = kpow Nat.eqb (seq 0 N) (PR P) m x y.
  Proof.
    intros [HP _]. induction m as [|k IH]; intros x y Hx Hy.
    - change (mpow N P 0) with (ident N). rewrite (ident_entry x y Hx Hy).
      cbn [kpow]. destruct (Nat.eqb x y); [apply RMicromega.Q2R_1|apply RMicromega.Q2R_0].
    - change (mpow N P (S k)) with (mmul N P (mpow N P k)).
      rewrite (mmul_entry P (mpow N P k) x y) by (rewrite HP; exact Hx).
      rewrite (vpush_is_push (mpow N P k) (nth x P []) y Hy). unfold push.
      cbn [kpow]. apply sumR_ext_in. intros z Hz. apply in_seq0 in Hz.
      unfold PR at 1. rewrite (IH z y Hz Hy). reflexivity.
  Qed.

  (* II7: minorQ is a lower bound of every entry *)
  Lemma fold_Qmin_le (l : list Q) (a : Q) : In a l -> (fold_right Qmin 1 l <= a)%Q.
  Proof.
    induction l as [|b l IH]; intros Ha; [contradiction|].
    cbn [fold_right]. destruct Ha as [->|Ha].
    - apply Q.le_min_l.
    - eapply Qle_trans; [apply Q.le_min_r|apply IH; exact Ha].
  Qed.

  Theorem minorQ_le P x y : wfmat N P -> (x < N)%nat -> (y < N)%nat -> (minorQ P <= mnth P x y)%Q.
  Proof.
    intros [HP HF] Hx Hy. unfold minorQ. apply fold_Qmin_le. apply in_concat.
    exists (nth x P []). assert (Hin : In (nth x P []) P) by (apply nth_In; rewrite HP; exact Hx).
    split; [exact Hin|]. unfold mnth, qnth. apply nth_In.
    rewrite Forall_forall in HF. rewrite (HF _ Hin). exact Hy.
  Qed.
End MatLinks.

(* ------------------------------------------------------------------ kernels read on the states only *)
Section KernelExt.
  Context {St : Type}.
  Variable eqb : St -> St -> bool.
  Variable states : list St.

  Lemma push_ker_ext (P P' : St -> St -> R) (mu : St -> R) y :
    (forall x, In x states -> P x y = P' x y) -> push states P mu y = push states P' mu y.
  Proof. intros H. unfold push. apply sumR_ext_in. intros x Hx. rewrite (H x Hx). reflexivity. Qed.

  Lemma pushn_ker_ext (P P' : St -> St -> R) :
    (forall x y, In x states -> In y states -> P x y = P' x y) ->
    forall n mu y, In y states -> pushn states P n mu y = pushn states P' n mu y.
  Proof.
    intros H. induction n as [|n IH]; intros mu y Hy; [reflexivity|].
    change (pushn states P (S n) mu) with (push states P (pushn states P n mu)).
    change (pushn states P' (S n) mu) with (push states P' (pushn states P' n mu)).
    rewrite (push_ext_in states P _ (pushn states P' n mu) y (fun x Hx => IH mu x Hx)).
    apply push_ker_ext. intros x Hx. apply H; assumption.
  Qed.

  Lemma K_ext_in (pi pi' : St -> R) (q q' : St -> St -> R) :
    (forall x, In x states -> pi x = pi' x) ->
    (forall x y, In x states -> In y states -> q x y = q' x y) ->
    forall x y, In x states -> In y states -> K eqb states pi q x y = K eqb states pi' q' x y.
  Proof.
    intros Hpi Hq.
    assert (Hoff : forall x y, In x states -> In y states -> Koff eqb pi q x y = Koff eqb pi' q' x y).
    { intros x y Hx Hy. unfold Koff, acc.
      rewrite (Hpi x Hx), (Hpi y Hy), (Hq x y Hx Hy), (Hq y x Hy Hx). reflexivity. }
    intros x y Hx Hy. unfold K. rewrite (Hoff x y Hx Hy).
    rewrite (sumR_ext_in (Koff eqb pi q x) (Koff eqb pi' q' x) states (fun z Hz => Hoff x z Hx Hz)).
    reflexivity.
  Qed.
End KernelExt.

(* ------------------------------------------------------------------ II8: the bound between the printed rationals *)
Lemma map_qnth_seq (l : list Q) : map (qnth l) (seq 0 (length l)) = l.
Proof.
  induction l as [|a l IH]; [reflexivity|].
  cbn [length seq map]. unfold qnth at 1. cbn [nth]. f_equal.
  rewrite <- seq_shift, map_map. exact IH.
Qed.

Lemma normalise_entry (w : list Q) (x : nat) :
  vR (normalise w) x = vR w x * Q2R (/ qsuml w).
Proof.
  unfold vR, normalise, qnth. destruct (lt_dec x (length w)) as [Hx|Hx].
  - rewrite (nth_indep (map (fun x => Qred (x / qsuml w)) w) 0%Q (Qred (0 / qsuml w)))
      by (rewrite map_length; exact Hx).
    rewrite (map_nth (fun x => Qred (x / qsuml w)) w 0%Q x).
    rewrite Q2R_red. unfold Qdiv. apply Q2R_mult.
  - rewrite !nth_overflow by (try rewrite map_length; lia). rewrite RMicromega.Q2R_0. ring.
Qed.

Section Sound.
  Variable N : nat.
  Variable w : list Q.
  Variable q : list (list Q).
  Hypothesis w_pos : forall i, (i < N)%nat -> (0 < qnth w i)%Q.
  Hypothesis q_nonneg : forall i j, (i < N)%nat -> (j < N)%nat -> (0 <= mnth q i j)%Q.

  Let states := seq 0 N.
  Let P := Kmat N w q.
  Let pi := normalise w.

  Lemma Kmat_w_posR : forall i, (i < N)%nat -> 0 < vR w i.
  Proof.
    intros i Hi. unfold vR. rewrite <- RMicromega.Q2R_0. apply Qlt_Rlt. exact (w_pos i Hi).
  Qed.

  (* weights and proposal clamped outside the table: positive / nonnegative everywhere *)
  Let wR' : nat -> R := fun i => if Nat.ltb i N then vR w i else 1.
  Let qR' : nat -> nat -> R := fun i j => if andb (Nat.ltb i N) (Nat.ltb j N) then PR q i j else 0.

  Lemma Kmat_wclamp_pos : forall i, 0 < wR' i.
  Proof.
    intros i. unfold wR'. destruct (Nat.ltb i N) eqn:E; [|lra].
    apply Kmat_w_posR. apply Nat.ltb_lt. exact E.
  Qed.

  Lemma Kmat_qclamp_nonneg : forall i j, 0 <= qR' i j.
  Proof.
    intros i j. unfold qR'. destruct (Nat.ltb i N) eqn:Ei; destruct (Nat.ltb j N) eqn:Ej; cbn [andb]; try lra.
    unfold PR. rewrite <- RMicromega.Q2R_0. apply Qle_Rle.
    apply q_nonneg; apply Nat.ltb_lt; assumption.
  Qed.

  Lemma Kmat_is_Kclamp x y : In x states -> In y states -> PR P x y = K Nat.eqb states wR' qR' x y.
  Proof.
    intros Hx Hy. pose proof Hx as Hx'. pose proof Hy as Hy'.
    apply in_seq0 in Hx'. apply in_seq0 in Hy'.
    unfold P. rewrite (Kmat_is_K N w q Kmat_w_posR x y Hx' Hy').
    apply K_ext_in; try assumption.
    - intros z Hz. apply in_seq0 in Hz. unfold wR'.
      apply Nat.ltb_lt in Hz. rewrite Hz. reflexivity.
    - intros a b Ha Hb. apply in_seq0 in Ha. apply in_seq0 in Hb. unfold qR'.
      apply Nat.ltb_lt in Ha. apply Nat.ltb_lt in Hb. rewrite Ha, Hb. reflexivity.
  Qed.

  (* the evaluated kernel is stochastic *)
  Lemma Kmat_row_sum : forall x, In x states -> sumR (PR P x) states = 1.
  Proof.
    intros x Hx.
    rewrite (sumR_ext_in (PR P x) (K Nat.eqb states wR' qR' x) states (fun y Hy => Kmat_is_Kclamp x y Hx Hy)).
    exact (K_row_sum Nat.eqb nat_eqb_spec states wR' qR' x (seq_nodup N) Hx).
  Qed.

  (* the normalised weights are stationary for it *)
  Lemma Kmat_stationary : forall y, In y states -> push states (PR P) (vR pi) y = vR pi y.
  Proof.
    intros y Hy. unfold push, pi.
    rewrite (sumR_ext_in (fun x => vR (normalise w) x * PR P x y)
                         (fun x => Q2R (/ qsuml w) * (wR' x * K Nat.eqb states wR' qR' x y)) states).
    2:{ intros x Hx. rewrite normalise_entry, (Kmat_is_Kclamp x y Hx Hy).
        apply in_seq0 in Hx. apply Nat.ltb_lt in Hx. unfold wR'. rewrite Hx. ring. }
    rewrite (sumR_scal (Q2R (/ qsuml w)) (fun x => wR' x * K Nat.eqb states wR' qR' x y) states).
    rewrite (stationary Nat.eqb nat_eqb_spec states wR' qR' Kmat_wclamp_pos Kmat_qclamp_nonneg y (seq_nodup N) Hy).
    rewrite normalise_entry. apply in_seq0 in Hy. apply Nat.ltb_lt in Hy. unfold wR'. rewrite Hy. ring.
  Qed.

  (* ergo_eval's stationarity flag: pi K = pi holds exactly between the rationals *)
  Theorem ergo_stat_sound :
    forallb (fun y => Qeq_bool (qnth (vpush N P pi) y) (qnth pi y)) (seq 0 N) = true.
  Proof.
    apply forallb_forall. intros y Hy. apply Qeq_bool_iff. apply eqR_Qeq.
    pose proof Hy as Hy'. apply in_seq0 in Hy'.
    rewrite (vpush_is_push N P pi y Hy'). exact (Kmat_stationary y Hy).
  Qed.

  Variable m : nat.
  Let Pm := mpow N P m.
  Let delta := minorQ Pm.

  Lemma Kmat_pow_is_kpow x y : In x states -> In y states ->
    PR Pm x y = kpow Nat.eqb states (PR P) m x y.
  Proof.
    intros Hx Hy. apply in_seq0 in Hx. apply in_seq0 in Hy.
    exact (mpow_is_kpow N P (Kmat_wf N w q) m x y Hx Hy).
  Qed.

  Lemma Kmat_pow_row_sum : forall x, In x states -> sumR (PR Pm x) states = 1.
  Proof.
    intros x Hx.
    rewrite (sumR_ext_in (PR Pm x) (kpow Nat.eqb states (PR P) m x) states (fun y Hy => Kmat_pow_is_kpow x y Hx Hy)).
    exact (kpow_row_sum Nat.eqb nat_eqb_spec states (seq_nodup N) (PR P) Kmat_row_sum m x Hx).
  Qed.

  Lemma Kmat_pow_minor : forall x y, In x states -> In y states -> Q2R delta <= PR Pm x y.
  Proof.
    intros x y Hx Hy. apply in_seq0 in Hx. apply in_seq0 in Hy. unfold PR. apply Qle_Rle.
    exact (minorQ_le N Pm x y (mpow_wf N P m (Kmat_wf N w q)) Hx Hy).
  Qed.

  Lemma Kmat_pow_stationary : forall y, In y states -> push states (PR Pm) (vR pi) y = vR pi y.
  Proof.
    intros y Hy.
    rewrite (push_ker_ext states (PR Pm) (kpow Nat.eqb states (PR P) m) (vR pi) y
               (fun x Hx => Kmat_pow_is_kpow x y Hx Hy)).
    exact (kpow_stationary Nat.eqb nat_eqb_spec states (seq_nodup N) (PR P) (vR pi) Kmat_stationary m y Hy).
  Qed.

  (* the law computed by n steps of the matrix power is the law after m * n steps of the kernel *)
  Theorem vpushn_mpow_is_pushn (n : nat) (e : list Q) y : (y < N)%nat ->
    Q2R (qnth (vpushn N Pm n e) y) = pushn states (PR P) (m * n) (vR e) y.
  Proof.
    intros Hy.
    assert (Hy' : In y states) by (apply in_seq0; exact Hy).
    transitivity (pushn states (PR Pm) n (vR e) y); [exact (vpushn_is_pushn N Pm n e y Hy)|].
    transitivity (pushn states (kpow Nat.eqb states (PR P) m) n (vR e) y);
      [exact (pushn_ker_ext states (PR Pm) (kpow Nat.eqb states (PR P) m) Kmat_pow_is_kpow n (vR e) y Hy')|].
    exact (pushn_kpow Nat.eqb nat_eqb_spec states (seq_nodup N) (PR P) m n (vR e) y Hy').
  Qed.

  (* II8: ergo_eval's dist <= bound *)
  Theorem ergo_bound_sound (n : nat) (e : list Q) :
    (qsuml (map (qnth e) (seq 0 N)) == qsuml (map (qnth pi) (seq 0 N)))%Q ->
    (l1Q N (vpushn N Pm n e) pi
     <= qmul (qpow (Qred (1 - inject_Z (Z.of_nat N) * delta)) n) (l1Q N e pi))%Q.
  Proof.
    intros Hmass. apply Rle_Qle.
    rewrite Q2R_qmul, Q2R_qpow, Q2R_red, Q2R_minus, Q2R_mult, RMicromega.Q2R_1, Q2R_inject_nat, !l1Q_is_l1.
    assert (HmassR : sumR (vR e) states = sumR (vR pi) states).
    { apply Qeq_eqR in Hmass. rewrite !qsuml_map_sumR in Hmass. exact Hmass. }
    rewrite (l1_ext_in (seq 0 N) (vR (vpushn N Pm n e)) (pushn states (PR Pm) n (vR e)) (vR pi) (vR pi))
      by (intros x Hx; first [apply vpushn_is_pushn; apply in_seq0; exact Hx|reflexivity]).
    pose proof (doeblin_geometric states (PR Pm) Kmat_pow_row_sum (Q2R delta) Kmat_pow_minor (vR pi) Kmat_pow_stationary (vR e) HmassR n) as H.
    unfold states in H at 3. rewrite seq_length in H. exact H.
  Qed.

  (* what ergo_eval's `dist` is: the l1 distance to pi of the law after m * n steps of the kernel *)
  Theorem ergo_dist_is_l1 (n : nat) (e : list Q) :
    Q2R (l1Q N (vpushn N Pm n e) pi) = l1 states (pushn states (PR P) (m * n) (vR e)) (vR pi).
  Proof.
    rewrite l1Q_is_l1. apply l1_ext_in; intros x Hx; [|reflexivity].
    apply vpushn_mpow_is_pushn. apply in_seq0. exact Hx.
  Qed.
End Sound.

(* ------------------------------------------------------------------ masses of the vectors ergo_eval builds *)
Lemma sumR_pos_seq (f : nat -> R) (N : nat) :
  (0 < N)%nat -> (forall i, (i < N)%nat -> 0 < f i) -> 0 < sumR f (seq 0 N).
Proof.
  intros HN Hf. destruct N as [|k]; [lia|].
  cbn [seq]. rewrite sumR_cons.
  assert (H0 : 0 < f 0%nat) by (apply Hf; lia).
  assert (H1 : 0 <= sumR f (seq 1 k)).
  { apply sumR_nonneg. intros x Hx. apply in_seq in Hx. apply Rlt_le. apply Hf. lia. }
  lra.
Qed.

Lemma qsuml_is_sumR (w : list Q) : Q2R (qsuml w) = sumR (vR w) (seq 0 (length w)).
Proof. rewrite <- (map_qnth_seq w) at 1. apply qsuml_map_sumR. Qed.

Theorem normalise_mass (N : nat) (w : list Q) :
  length w = N -> (0 < N)%nat -> (forall i, (i < N)%nat -> (0 < qnth w i)%Q) ->
  (qsuml (map (qnth (normalise w)) (seq 0 N)) == 1)%Q.
Proof.
  intros Hlen HN Hpos. apply eqR_Qeq. rewrite qsuml_map_sumR, RMicromega.Q2R_1.
  rewrite (sumR_ext (fun i => Q2R (qnth (normalise w) i)) (fun i => vR w i * Q2R (/ qsuml w)))
    by (intros i; apply normalise_entry).
  rewrite (sumR_scal_r (Q2R (/ qsuml w)) (vR w) (seq 0 N)).
  assert (Hs : 0 < Q2R (qsuml w)).
  { rewrite qsuml_is_sumR, Hlen. apply sumR_pos_seq; [exact HN|].
    intros i Hi. unfold vR. rewrite <- RMicromega.Q2R_0. apply Qlt_Rlt. exact (Hpos i Hi). }
  rewrite <- Hlen, <- qsuml_is_sumR.
  rewrite Q2R_inv.
  - field. lra.
  - intros Hz. apply Qeq_eqR in Hz. rewrite RMicromega.Q2R_0 in Hz. lra.
Qed.

Theorem indicator_mass (N s : nat) : (s < N)%nat ->
  (qsuml (map (qnth (map (fun x => if Nat.eqb x s then 1%Q else 0%Q) (seq 0 N))) (seq 0 N)) == 1)%Q.
Proof.
  intros Hs. apply eqR_Qeq. rewrite qsuml_map_sumR, RMicromega.Q2R_1.
  rewrite (sumR_ext_in (fun i => Q2R (qnth (map (fun x => if Nat.eqb x s then 1%Q else 0%Q) (seq 0 N)) i))
                       (fun i => if Nat.eqb i s then 1 else 0) (seq 0 N)).
  - apply (sumR_indicator Nat.eqb nat_eqb_spec (fun _ => 1) s (seq 0 N) (seq_nodup N)).
    apply in_seq0. exact Hs.
  - intros i Hi. apply in_seq0 in Hi. unfold qnth.
    rewrite (nth_map_seq (fun x => if Nat.eqb x s then 1%Q else 0%Q) N i 0%Q Hi).
    destruct (Nat.eqb i s); [apply RMicromega.Q2R_1|apply RMicromega.Q2R_0].
Qed.

(* non-vacuity: a 4-state table whose one-step kernel has zero entries (delta_1 = 0) while the two-step kernel is
   minorised by delta_2 = 107/1200; stationarity holds exactly and the exact distance is below the Doeblin bound *)
Example ergo_eval_example :
  ergo_eval [1;2;3;5]%Z [[0;1;1;2];[1;0;4;1];[2;1;0;1];[1;1;1;1]]%Z 2 20 0
  = [1; 11; 2; 11; 3; 11; 5; 11; 107; 1200;
     5142167038124967688510395237016892228377440001;
     19177314205500000000000000000000000000000000000000;
     466217033920292668929678429099850170612580027134678775704113;
     200761944647381094053515681440202752000000000000000000000000000000000000000;
     1; 1]%Z.
Proof. vm_compute. reflexivity. Qed.

Example ergo_eval_example_onestep :
  ergo_eval [1;2;3;5]%Z [[0;1;1;2];[1;0;4;1];[2;1;0;1];[1;1;1;1]]%Z 1 20 0
  = [1; 11; 2; 11; 3; 11; 5; 11; 0; 1; 20; 11;
     68011179386812229498364346817; 8579785139347783680000000000000000000; 1; 1]%Z.
Proof. vm_compute. reflexivity. Qed.

(* ------------------------------------------------------------------ ergo_eval's two flags are 1 on every admissible input *)
Lemma qsuml_nonneg (l : list Q) : (forall x, In x l -> (0 <= x)%Q) -> (0 <= qsuml l)%Q.
Proof.
  induction l as [|a l IH]; intros H; [apply Qle_refl|].
  change (qsuml (a :: l)) with (Qred (a + qsuml l)). rewrite Qred_correct.
  exact (Qplus_le_compat 0 a 0 (qsuml l) (H a (or_introl eq_refl)) (IH (fun x Hx => H x (or_intror Hx)))).
Qed.

Lemma normalise_nonneg (l : list Q) : (forall x, In x l -> (0 <= x)%Q) ->
  forall j, (0 <= qnth (normalise l) j)%Q.
Proof.
  intros H j. unfold normalise, qnth. destruct (lt_dec j (length l)) as [Hj|Hj].
  - rewrite (nth_indep (map (fun x => Qred (x / qsuml l)) l) 0%Q (Qred (0 / qsuml l)))
      by (rewrite map_length; exact Hj).
    rewrite (map_nth (fun x => Qred (x / qsuml l)) l 0%Q j). rewrite Qred_correct.
    unfold Qdiv. apply Qmult_le_0_compat.
    + apply H. apply nth_In. exact Hj.
    + apply Qinv_le_0_compat. apply qsuml_nonneg. exact H.
  - rewrite nth_overflow by (rewrite map_length; lia). apply Qle_refl.
Qed.

Lemma inject_Z_nonneg (z : Z) : (0 <= z)%Z -> (0 <= inject_Z z)%Q.
Proof. intros H. unfold Qle. cbn [Qnum Qden inject_Z]. lia. Qed.

Lemma inject_Z_pos (z : Z) : (0 < z)%Z -> (0 < inject_Z z)%Q.
Proof. intros H. unfold Qlt. cbn [Qnum Qden inject_Z]. lia. Qed.

Theorem ergo_eval_flags (ws : list Z) (qs : list (list Z)) (m n s : nat) :
  (forall z, In z ws -> (0 < z)%Z) ->
  (forall row z, In row qs -> In z row -> (0 <= z)%Z) ->
  (s < length ws)%nat ->
  exists front, ergo_eval ws qs m n s = front ++ [1; 1]%Z.
Proof.
  intros Hws Hqs Hs. unfold ergo_eval. cbv zeta.
  set (N := length ws). set (w := map inject_Z ws).
  set (q := map (fun row => normalise (map inject_Z row)) qs).
  assert (Hwpos : forall i, (i < N)%nat -> (0 < qnth w i)%Q).
  { intros i Hi. unfold qnth, w. change 0%Q with (inject_Z 0) at 2. rewrite (map_nth inject_Z ws 0%Z i).
    apply inject_Z_pos. apply Hws. apply nth_In. exact Hi. }
  assert (Hq : forall i j, (i < N)%nat -> (j < N)%nat -> (0 <= mnth q i j)%Q).
  { intros i j _ _. unfold mnth, q. destruct (lt_dec i (length qs)) as [Hi|Hi].
    - rewrite (nth_indep (map (fun row => normalise (map inject_Z row)) qs) [] (normalise (map inject_Z [])))
        by (rewrite map_length; exact Hi).
      rewrite (map_nth (fun row => normalise (map inject_Z row)) qs [] i).
      apply normalise_nonneg. intros x Hx. apply in_map_iff in Hx. destruct Hx as [z [<- Hz]].
      apply inject_Z_nonneg. apply (Hqs (nth i qs []) z); [apply nth_In; exact Hi|exact Hz].
    - rewrite nth_overflow by (rewrite map_length; lia). unfold qnth. destruct j; apply Qle_refl. }
  assert (Hmass : (qsuml (map (qnth (map (fun x => if Nat.eqb x s then 1%Q else 0%Q) (seq 0 N))) (seq 0 N))
                   == qsuml (map (qnth (normalise w)) (seq 0 N)))%Q).
  { rewrite (indicator_mass N s Hs).
    symmetry. apply normalise_mass; [unfold w; apply map_length|unfold N in *; lia|exact Hwpos]. }
  rewrite (ergo_stat_sound N w q Hwpos Hq).
  pose proof (ergo_bound_sound N w q Hwpos Hq m n _ Hmass) as Hb.
  apply Qle_bool_iff in Hb. rewrite Hb.
  eexists. rewrite !app_assoc. reflexivity.
Qed.
