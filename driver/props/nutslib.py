"""Shared NUTS trace handling for C03 / C04 / C14."""
from fractions import Fraction
import math, struct
import common as C


VMARK = -1000000009
SMARK = -1000000019


def bf(b):
    return C.f64_bits_to_float(b)


def tbits(f, b):
    """bit pattern in the chain's scalar type T of a value emitted as (exactly widened) f64 bits"""
    return C.float_to_f32_bits(bf(b)) if f == "f32" else b


def dy(x):
    if x == 0:
        return "(dy 0 0)"
    m, e = math.frexp(x)
    m = int(m * (1 << 53))
    e -= 53
    while m % 2 == 0:
        m //= 2
        e += 1
    return "(dy %s %s)" % (C.z(m), C.z(e))


def split_transitions(events):
    """-> list of transitions: dict(start, doublings=[dict(head, leaves, merges, end)], stepend)"""
    out, cur = [], None
    for e in events:
        k = e["e"]
        if k == "start":
            cur = {"start": e, "doublings": [], "stepend": None}
        elif k == "doubling":
            cur["doublings"].append({"head": e, "leaves": [], "merges": [], "end": None})
        elif k == "leaf":
            cur["doublings"][-1]["leaves"].append(e)
        elif k == "merge":
            cur["doublings"][-1]["merges"].append(e)
        elif k == "end":
            cur["doublings"][-1]["end"] = e
        elif k == "stepend":
            cur["stepend"] = e
            out.append(cur)
            cur = None
    return out


def build_table(tr):
    """trajectory index -> leaf/start event; per doubling the list of indices visited"""
    table = {0: tr["start"]}
    lo = hi = 0
    per = []
    for db in tr["doublings"]:
        v = db["head"]["v"]
        idxs = []
        for k, lf in enumerate(db["leaves"], start=1):
            i = hi + k if v == 1 else lo - k
            table[i] = lf
            idxs.append(i)
        if v == 1:
            hi += len(db["leaves"])
        else:
            lo -= len(db["leaves"])
        per.append(idxs)
    return table, per


def dots(table, i, j):
    """exact (dot_minus, dot_plus, scale) of the stop criterion for endpoints i (minus) and j (plus)"""
    a, b = table[i], table[j]
    pa = [Fraction(bf(x)) for x in a["position"]]
    pb = [Fraction(bf(x)) for x in b["position"]]
    ma = [Fraction(bf(x)) for x in a["momentum"]]
    mb = [Fraction(bf(x)) for x in b["momentum"]]
    diff = [y - x for x, y in zip(pa, pb)]
    dm = sum(d * m for d, m in zip(diff, ma))
    dp = sum(d * m for d, m in zip(diff, mb))
    sc = sum(abs(d * m) for d, m in zip(diff, ma)) + sum(abs(d * m) for d, m in zip(diff, mb))
    return dm, dp, sc


def finite_entry(e):
    return all(math.isfinite(bf(x)) for x in e["position"] + e["momentum"])


def ambiguous(tr, f):
    """is some U-turn test the implementation may have evaluated within rounding of zero (or non-finite)?"""
    table, per = build_table(tr)
    eps = Fraction(2) ** (-14 if f == "f32" else -40)
    lo = hi = 0
    pairs = []
    for db, idxs in zip(tr["doublings"], per):
        v = db["head"]["v"]
        m = len(idxs)
        size = 2
        while size <= m:          # complete dyadic blocks of the visited leaves
            for s0 in range(0, m - size + 1, size):
                blk = idxs[s0:s0 + size]
                pairs.append((min(blk), max(blk)))
            size *= 2
        if v == 1:
            hi += m
        else:
            lo -= m
        pairs.append((lo, hi))
    for (i, j) in pairs:
        if not (finite_entry(table[i]) and finite_entry(table[j])):
            return True
        dm, dp, sc = dots(table, i, j)
        if abs(dm) <= eps * sc or abs(dp) <= eps * sc:
            return True
    return False


def coq_term(tr, f):
    table, per = build_table(tr)
    ents = []
    for i in sorted(table):
        e = table[i]
        if not finite_entry(e):
            pos = mom = "[]"
        else:
            pos = "[" + "; ".join(dy(bf(x)) for x in e["position"]) + "]"
            mom = "[" + "; ".join(dy(bf(x)) for x in e["momentum"]) + "]"
        ents.append("(%s, mk_entry %d %d %s %s)" % (C.z(i), tbits(f, e["joint"]), tbits(f, e.get("alpha", 0)), pos, mom))
    dirs = [1 if db["head"]["v"] == 1 else 0 for db in tr["doublings"]]
    tus = [mg["u"] for db in tr["doublings"] for mg in db["merges"]]
    accs = [tbits(f, db["end"]["u2"]) for db in tr["doublings"]]
    fn = "nuts_eval32" if f == "f32" else "nuts_eval64"
    tbl = "[%s]" % "; ".join(ents)
    main = "%s %s %d %s %s %s" % (fn, tbl, tbits(f, tr["start"]["logu"]), C.zlist(dirs), C.zlist(tus), C.zlist(accs))
    # the build_tree call of every doubling: (depth, edge, direction, its uniforms) for Model.NUTS.visited
    calls, lo, hi = [], 0, 0
    for k, db in enumerate(tr["doublings"]):
        v = 1 if db["head"]["v"] == 1 else 0
        calls.append("(%s, %s, %d, %s)" % (C.natlit(k), C.z(hi if v else lo), v, C.zlist([mg["u"] for mg in db["merges"]])))
        if v:
            hi += len(db["leaves"])
        else:
            lo -= len(db["leaves"])
    vfn = "nuts_visited32" if f == "f32" else "nuts_visited64"
    sfn = "nuts_span32" if f == "f32" else "nuts_span64"
    return "let tbl := %s in (%s) ++ (%s tbl %d [%s]) ++ [%d] ++ (%s)" % (
        tbl, main.replace(tbl, "tbl", 1), vfn, tbits(f, tr["start"]["logu"]), "; ".join(calls), SMARK,
        main.replace(tbl, "tbl", 1).replace(fn, sfn, 1))


def expected(tr, f, model):
    """compare the model's rendering with the trace; returns None or a description"""
    table, per = build_table(tr)
    nd = len(tr["doublings"])
    if SMARK in model:
        k4 = model.index(SMARK)
        model, sp = model[:k4], model[k4 + 1:]
        if sp != [-2] and model != [-2]:
            if len(sp) != 6:
                return "model output malformed (span)"
            lo, hi, sl, sr, complete, cnt = sp
            if cnt not in (1, -1):
                return "%d direction sequences rebuild the trajectory from the chain's new point; the symmetry theorem says exactly one" % cnt
            if (lo, hi) != (min(table), max(table)):
                return "the trajectory covers indices %d..%d in the implementation, %d..%d in the model" % (min(table), max(table), lo, hi)
            if complete == 1 and (sl, sr) != (lo, hi):
                return "every subtree was complete but the trajectory %d..%d is not span_from 0 (directions) = %d..%d" % (lo, hi, sl, sr)
    if VMARK in model:
        k3 = model.index(VMARK)
        model, vis = model[:k3], model[k3:]
        groups = []
        for x in vis:
            if x == VMARK:
                groups.append([])
            else:
                groups[-1].append(x)
        if model != [-2] and groups != per:
            k = [i for i in range(max(len(groups), len(per))) if i >= len(groups) or i >= len(per) or groups[i] != per[i]][0]
            return "doubling %d: the implementation visited %d leaves, Model.NUTS.visited enumerates %s" % (
                k, len(per[k]) if k < len(per) else -1, groups[k] if k < len(groups) else None)
    if model == [-2]:
        return "model ran out of variates: the implementation consumed fewer uniforms than Algorithm 6 needs"
    if len(model) != 7 * nd + 5:
        return "model performs %d doublings, implementation %d" % ((len(model) - 5) // 7, nd)
    for k, db in enumerate(tr["doublings"]):
        d, n, s, na, al, cand, acc = model[7 * k:7 * k + 7]
        e = db["end"]
        exp = [1 if db["head"]["v"] == 1 else 0, e["n"], int(e["s"]), e["nalpha"], tbits(f, e["alpha"]), None, int(e["accepted"])]
        got = [d, n, s, na, al, None, acc]
        if got != exp:
            names = ["direction", "n'", "s'", "n_alpha'", "alpha' bits", "", "accepted"]
            j = [i for i in range(7) if got[i] != exp[i]][0]
            return "doubling %d: %s is %s in the implementation, Algorithm 6 (model) gives %s" % (k, names[j], exp[j], got[j])
        if e["accepted"]:
            if cand not in table or table[cand]["position"] != e["position"]:
                return "doubling %d: adopted position is not the model's candidate (trajectory index %s)" % (k, cand)
    m1, cur, l1, l2, l3 = model[7 * nd:]
    if (l1, l2, l3) != (0, 0, 0):
        return "implementation consumed more variates than the model (%d dirs, %d tree, %d accept left)" % (l1, l2, l3)
    if cur not in table or table[cur]["position"] != tr["stepend"]["position"]:
        return "final position is not the model's (trajectory index %s)" % cur
    return None


def oracle(tr, f, target=None):
    """Property text on the trace, independent of the Coq model."""
    table, per = build_table(tr)
    st = tr["start"]
    logu = bf(st["logu"])
    joint0 = bf(st["joint"])
    tol = 1e-5 if f == "f32" else 1e-12
    n_total = 1
    pos_now = st["position"]
    for k, (db, idxs) in enumerate(zip(tr["doublings"], per)):
        hd, e = db["head"], db["end"]
        u1 = bf(hd["u1"])
        if (hd["v"] == 1) != (u1 < 0.5):
            return "doubling %d: direction %d for uniform %r" % (k, hd["v"], u1)
        if hd["j"] != k:
            return "doubling %d has depth %d" % (k, hd["j"])
        if len(idxs) > 2 ** k or len(idxs) == 0:
            return "doubling %d visited %d leaves (at most 2^%d)" % (k, len(idxs), k)
        adm = 0
        diverged = False
        asum = 0.0
        for lf in db["leaves"]:
            j = bf(lf["joint"])
            if logu < j:
                adm += 1
            if not (logu - 1000.0 < j):
                diverged = True
            ex = min(1.0, math.exp(min(50.0, j - joint0))) if not math.isnan(j) else float("nan")
            a = bf(lf["alpha"])
            if not math.isnan(ex) and abs(a - ex) > 1e-4 * (1 + ex) and abs(j - joint0) < 80:
                return "doubling %d: leaf acceptance term %r, min(1, exp(energy change)) = %r" % (k, a, ex)
            if math.isnan(j) and not math.isnan(joint0) and a != 0.0:
                return ("doubling %d: a leaf outside the target's domain (joint density NaN) enters the acceptance statistic as %r; "
                        "it is a rejected leaf (0) — counted as 1 it drives the adapted step size to infinity" % (k, a))
            if not (0.0 <= a <= 1.0):
                return "doubling %d: leaf acceptance term %r outside [0, 1]" % (k, a)
            asum += a
        if diverged and len(idxs) == 2 ** k and e["s"]:
            pass  # s' must be false when a leaf diverged; checked below through the model-free rule
        if diverged and e["s"]:
            return "doubling %d: a leaf has energy error above 1000 but the subtree was not stopped" % k
        # uniform choice among admissible points: each merge keeps the second half's candidate iff u < n2/max(n1+n2,1)
        for mg in db["merges"]:
            u = Fraction(bf(mg["u"]))
            want = u < Fraction(mg["n2"], max(mg["n1"] + mg["n2"], 1))
            if mg["took"] != want:
                return ("doubling %d: merge of sub-trees with %d and %d admissible points, u = %r: second half's candidate %s, "
                        "Algorithm 6 (probability n''/(n'+n'')) says %s" % (k, mg["n1"], mg["n2"], bf(mg["u"]),
                                                                           "taken" if mg["took"] else "not taken",
                                                                           "take" if want else "keep"))
            if mg["n"] != mg["n1"] + mg["n2"]:
                return "doubling %d: merged count %d != %d + %d" % (k, mg["n"], mg["n1"], mg["n2"])
        # a stop needs a reason: divergence (energy error > 1000) or a U-turn of some completed sub-tree
        if not e["s"] and not diverged:
            eps_amb = Fraction(2) ** (-14 if f == "f32" else -40)
            reason = False
            size = 2
            m = len(idxs)
            while size <= 2 ** k and not reason:
                for s0 in range(0, m - size + 1, size):
                    blk = idxs[s0:s0 + size]
                    i, j = min(blk), max(blk)
                    if not (finite_entry(table[i]) and finite_entry(table[j])):
                        reason = True
                        break
                    dm, dp, sc = dots(table, i, j)
                    if dm < eps_amb * sc or dp < eps_amb * sc:
                        reason = True
                        break
                size *= 2
            if not reason:
                worst = min(bf(lf["joint"]) for lf in db["leaves"])
                return ("doubling %d: sub-tree stopped although no visited leaf has an energy error above 1000 (lowest joint %r, "
                        "slice level %r) and no completed sub-tree made a U-turn" % (k, worst, logu))
        if e["n"] != adm and not (diverged or not e["s"]):
            return "doubling %d: n' = %d but %d visited leaves are slice-admissible" % (k, e["n"], adm)
        if e["nalpha"] != len(idxs):
            return "doubling %d: n_alpha' = %d for %d leaves" % (k, e["nalpha"], len(idxs))
        if abs(bf(e["alpha"]) - asum) > 1e-4 * (1 + asum):
            return "doubling %d: alpha' = %r, sum over the doubling's leaves = %r" % (k, bf(e["alpha"]), asum)
        if e["accepted"]:
            if not e["s"]:
                return "doubling %d: candidate adopted from a subtree that stopped (s' = false)" % k
            ok = [i for i in idxs if table[i]["position"] == e["position"]]
            if not ok:
                return "doubling %d: adopted position is not a point of this doubling's trajectory segment" % k
            if not any(logu < bf(table[i]["joint"]) for i in ok):
                return "doubling %d: adopted point is not slice-admissible (joint %r <= slice level %r)" % (
                    k, bf(table[ok[0]]["joint"]), logu)
            u2, tmp = bf(e["u2"]), min(1.0, e["n"] / n_total)
            if not (u2 < tmp + 1e-6):
                return "doubling %d: adopted although u = %r >= min(1, n'/n) = %r" % (k, u2, tmp)
            pos_now = e["position"]
        elif e["position"] != pos_now:
            return "doubling %d: position changed without an accepted candidate" % k
        n_total += e["n"]
        last = (k == len(tr["doublings"]) - 1)
        if not last and not e["s_after"]:
            return "doubling %d: loop continued after a stop" % k
        if last and e["s_after"]:
            return "transition ended while the trajectory had neither U-turned nor diverged"
    se = tr["stepend"]
    if se["position"] != pos_now:
        return "position after the transition differs from the last adopted candidate"
    lastd = tr["doublings"][-1]["end"]
    if se["nalpha"] != lastd["nalpha"] or se["alpha"] != lastd["alpha"]:
        return "per-transition acceptance statistic is not that of the last doubling"
    return None
