"""C04 — NUTS step size: dual averaging in warm-up, frozen afterwards."""
from fractions import Fraction
import json, math
import common as C
from props import nutslib as N

ID = "C04"
LEVEL = "proof"
COQ_HEADER = "From MiniMcmc Require Import Model.DualAvg Model.FindEps Model.NUTSEval."
HMARK = -1000000019
RULE = ("real NUTSChain runs (Gaussians dim 1..6, DiffableGaussian2D, Rosenbrock2D; target acceptance in (0.5,0.99); warm-up 0..300 "
        "quick / ..2000 thorough; f32 and f64; one to three consecutive run() calls on one chain): after every transition the "
        "adaptation state (m, eps, eps_bar, h_bar, mu) read through the adapt_state hook; one-step check: from the emitted previous "
        "state and the transition's (alpha, n_alpha), Model.DualAvg.da_step evaluated in 80-bit interval arithmetic inside Coq must "
        "enclose the emitted next state (tolerance scaled by ulp * sqrt(m)/gamma); after warm-up eps must equal eps_bar bitwise "
        "and stay constant; mu after init_chain = ln(10 eps); m persists across run() calls. Non-trivial: runs with >= 5 warm-up "
        "transitions and >= 2 post-warm-up transitions, or >= 2 run() calls.")
TRUSTED = ["Interval library (enclosures of exp, ln, sqrt; its own axioms: Uint63 primitives are not used, BigZ-based floats)",
           "f32/f64 exp, ln, sqrt, powf of the platform (the quantities compared)"]
ASSUMPTIONS = ["'realised acceptance close to requested' is statistical: reported as an exploration figure only"]


def fb(x):
    return C.float_to_f64_bits(x)


def generate(rng, tier):
    n_cases = 36 if tier == "quick" else 300
    cases = []
    while len(cases) < n_cases:
        f = rng.choice(["f32", "f32", "f64"])
        k = rng.choice(["gaussprec", "gaussprec", "gauss2d", "rosen2d"])
        if k == "gaussprec":
            d = rng.randint(1, 6)
            A = [[(1.0 + i) if i == j else (0.25 if abs(i - j) == 1 else 0.0) for j in range(d)] for i in range(d)]
            tg = {"kind": k, "d": d, "prec": [fb(A[i][j]) for i in range(d) for j in range(d)]}
        elif k == "gauss2d":
            d = 2
            tg = {"kind": k, "mean": [fb(0.0), fb(1.0)], "cov": [fb(4.0), fb(2.0), fb(2.0), fb(3.0)]}
        else:
            d = 2
            tg = {"kind": k, "a": fb(1.0), "b": fb(rng.choice([1.0, 10.0]))}
        wmax = 60 if tier == "quick" else 2000
        r = rng.random()
        if r < 0.5:
            runs = [[rng.randint(3, 12), rng.choice([0, 1, 5, 20, rng.randint(0, wmax)])]]
        elif r < 0.8:    # second run with a shorter / equal / longer warm-up than m reached
            n1, d1 = rng.randint(2, 6), rng.randint(0, 30)
            runs = [[n1, d1], [rng.randint(2, 6), rng.choice([0, d1, n1 + d1 + rng.randint(1, 20)])]]
        elif r < 0.9:
            runs = [[rng.randint(2, 5), rng.randint(0, 15)] for _ in range(3)]
        else:
            # a warm-up-only run followed by sampling runs: the counter m jumps past n_discard + 1 of the later runs
            nw = rng.randint(3, 40)
            runs = [[1, nw], [rng.randint(2, 6), 0]] + ([[rng.randint(2, 4), rng.choice([0, nw // 2])]] if rng.random() < 0.5 else [])
        cases.append({"op": "transitions", "f": f, "target": tg, "init": [fb(round(rng.uniform(-1, 1), 2)) for _ in range(d)],
                      "accept": rng.choice([0.55, 0.65, 0.8, 0.9, 0.95, 0.98]), "seed": str(rng.getrandbits(64)),
                      "runs": runs, "events_filter": "stepend"})
    # targets whose log-density is NaN outside their domain (ln x - x, ln(1 - |x|^2)), started inside it, long warm-ups:
    # a leaf outside the domain has a NaN energy change; the step size must stay positive and finite all the same
    for sup, init in [("logdomain", [0.5]), ("ball", [0.1, 0.1]), ("logdomain", [0.5, 0.1])]:
        for acc in ([0.51, 0.8] if tier == "quick" else [0.51, 0.6, 0.8, 0.95]):
            cases.append({"op": "transitions", "f": "f32" if acc < 0.9 else "f64", "target": {"kind": sup, "d": len(init)},
                          "init": [fb(v) for v in init], "accept": acc, "seed": str(rng.getrandbits(64)),
                          "runs": [[3, 700 if tier == "quick" else 2000]], "events_filter": "stepend", "nan_region": True})
    # find_reasonable_epsilon on Gaussian targets with dyadic precision matrices
    for _ in range(40 if tier == "quick" else 400):
        f = rng.choice(["f32", "f64"])
        d = rng.randint(1, 4)
        A = [[0.0] * d for _ in range(d)]
        for i in range(d):
            A[i][i] = rng.choice([0.25, 1.0, 4.0, 16.0, 64.0, 0.0625])
            if i + 1 < d and rng.random() < 0.5:
                A[i][i + 1] = A[i + 1][i] = 0.125 * rng.choice([-1, 1])
        cases.append({"op": "find_eps", "f": f, "target": {"kind": "gaussprec", "d": d, "prec": [fb(A[i][j]) for i in range(d) for j in range(d)]},
                      "position": [fb(rng.choice([-2.0, -0.5, 0.0, 0.25, 1.0, 3.0])) for _ in range(d)],
                      "momentum": [fb(rng.choice([-1.5, -0.5, 0.5, 1.0, 2.0])) for _ in range(d)]})
    # the multi-chain wrapper: every chain must adapt exactly like a stand-alone chain from ITS OWN start point
    # (start points at very different scales, so the step-size heuristic gives different initial step sizes)
    for _ in range(6 if tier == "quick" else 40):
        nc = rng.choice([2, 3, 5])
        inits = [[fb(rng.choice([0.001, 0.3, 2.0, 40.0, 900.0]) * rng.choice([-1, 1])) for _ in range(2)] for _ in range(nc)]
        cases.append({"op": "multi", "f": rng.choice(["f32", "f64"]), "inits": inits, "accept": rng.choice([0.6, 0.8, 0.9]),
                      "seed": str(rng.getrandbits(64)), "n": rng.randint(1, 4), "d": rng.randint(0, 6), "progress": rng.random() < 0.4})
        if cases[-1]["progress"]:
            # run_progress computes split diagnostics of the returned draws, which need n_collect >= 4 (C10's own range;
            # with fewer draws it panics while stacking the half-chains — outside the property, first seen in the thorough tier)
            cases[-1]["n"] = rng.randint(4, 6)
    # ... and on the half-line target, whose log-density is -inf outside x0 > 0 (steps that leave the support)
    for _ in range(24 if tier == "quick" else 240):
        f = rng.choice(["f32", "f64"])
        d = rng.randint(1, 3)
        cases.append({"op": "find_eps", "f": f, "target": {"kind": "halfline", "d": d},
                      "position": [fb(rng.choice([0.125, 0.5, 1.0, 4.0, 0.015625]))] + [fb(rng.choice([-1.0, 0.0, 0.5, 2.0])) for _ in range(d - 1)],
                      "momentum": [fb(rng.choice([-4.0, -2.0, -0.5, -0.25, 0.5, 1.0, 3.0])) for _ in range(d)]})
    return cases


def run_impl(cases):
    return C.run_isolated("C04", cases, watchdog_s=150, mem_gb=6)


LN_HALF = math.log(0.5)


def find_eps_exact(case):
    """find_reasonable_epsilon in exact rational arithmetic; returns (eps, smallest |lap - ln 1/2| met)"""
    d = case["target"]["d"]
    x = [Fraction(N.bf(b)) for b in case["position"]]
    p = [Fraction(N.bf(b)) for b in case["momentum"]]
    if case["target"]["kind"] == "halfline":
        def logp(v):
            return -v[0] - sum(t * t for t in v[1:]) / 2 if v[0] > 0 else None       # None: -inf

        def grad(v):
            return [Fraction(-1)] + [-t for t in v[1:]] if v[0] > 0 else [Fraction(0)] * d
    else:
        A = [[Fraction(N.bf(case["target"]["prec"][i * d + j])) for j in range(d)] for i in range(d)]

        def logp(v):
            return -sum(v[i] * A[i][j] * v[j] for i in range(d) for j in range(d)) / 2

        def grad(v):
            return [-sum((A[i][j] + A[j][i]) * v[j] for j in range(d)) / 2 for i in range(d)]

    def lap(e):
        p1 = [pi + e / 2 * g for pi, g in zip(p, grad(x))]
        x1 = [xi + e * pi for xi, pi in zip(x, p1)]
        p2 = [pi + e / 2 * g for pi, g in zip(p1, grad(x1))]
        if logp(x1) is None:
            return -math.inf
        return float(logp(x1) - logp(x) - (sum(q * q for q in p2) - sum(q * q for q in p)) / 2)
    margin = math.inf
    if case["target"]["kind"] == "halfline":
        # a trajectory point within rounding of the boundary x0 = 0 makes the float run ambiguous as well
        def bmargin(e):
            p1 = p[0] + e / 2 * grad(x)[0]
            return abs(float(x[0] + e * p1))
        margin = min(bmargin(Fraction(2) ** k) for k in range(-45, 12))
    l = lap(Fraction(1))
    margin = min(margin, abs(l - LN_HALF))
    up = l > LN_HALF
    eps = Fraction(1, 2)
    for _ in range(60):
        if not ((l > LN_HALF) if up else (l < LN_HALF)):
            return eps, margin
        eps = eps * 2 if up else eps / 2
        l = lap(eps)
        margin = min(margin, abs(l - LN_HALF))
    return None, margin


def tround(f, x):
    return C.f32_bits_to_float(C.float_to_f32_bits(x)) if f == "f32" else x


def steps(case, out):
    """-> list of (nd, prev_state, alpha_bits, n_alpha, next_state) over all runs; state = [m, eps, eb, h, mu, nd]"""
    res = []
    if "panic" in out or "timeout" in out or "crash" in out or "runs" not in out:
        return res
    for run in out["runs"]:
        prev = run["after_init"]
        ends = [e for e in run["events"] if e["e"] == "stepend"]
        for st, e in zip(run["states"], ends):
            res.append((run["d"], prev, e["alpha"], e["nalpha"], st))
            prev = st
    return res


def idy(x):
    if x == 0:
        return "(idy 0 0)"
    m, e = math.frexp(x)
    m = int(m * (1 << 53))
    e -= 53
    while m % 2 == 0:
        m //= 2
        e += 1
    return "(idy %s %s)" % (C.z(m), C.z(e))


def consts(case):
    f = case["f"]
    return tround(f, case["accept"]), tround(f, 0.05), tround(f, 0.75)


def sel(case, out):
    """which steps get the interval evaluation (all warm-up steps up to a cap, a few frozen ones)"""
    ss = steps(case, out)
    pick = [i for i, (nd, p, a, na, s) in enumerate(ss) if p[0] + 1 <= nd and all(math.isfinite(N.bf(x)) for x in p[1:5])
            and math.isfinite(N.bf(a)) and na >= 1]
    if len(pick) > 40:
        pick = pick[:20] + pick[-20:]
    return ss, pick


def coq_term(case, out):
    if "panic" in out or "timeout" in out or "crash" in out or case["op"] == "multi":
        return None
    if case["op"] == "find_eps" and case["target"]["kind"] == "halfline":
        q = lambda b: N.dy(N.bf(b))
        return "find_eps_x_eval [%s] [%s]" % ("; ".join(q(b) for b in case["position"]), "; ".join(q(b) for b in case["momentum"]))
    if case["op"] == "find_eps":
        d = case["target"]["d"]
        q = lambda b: N.dy(N.bf(b))
        A = "[" + "; ".join("[" + "; ".join(q(case["target"]["prec"][i * d + j]) for j in range(d)) + "]" for i in range(d)) + "]"
        return "find_eps_eval %s [%s] [%s]" % (A, "; ".join(q(b) for b in case["position"]), "; ".join(q(b) for b in case["momentum"]))
    ss, pick = sel(case, out)
    delta, gamma, kappa = consts(case)
    parts = []
    for i in pick:
        nd, p, a, na, s = ss[i]
        acc = "(I.div iprec %s (I.fromZ iprec %d))" % (idy(N.bf(a)), na)
        parts.append("da_eval %s %s %s %s %s %s %s %s %s %s" % (
            idy(delta), idy(gamma), idy(kappa), C.natlit(nd), C.natlit(p[0]),
            idy(N.bf(p[1])), idy(N.bf(p[2])), idy(N.bf(p[3])), idy(N.bf(p[4])), acc))
    for run in out["runs"]:
        parts.append("mu_eval %s" % idy(N.bf(run["after_init"][1])))
    for run in whole_runs(out):
        p = run["after_init"]
        ends = [e for e in run["events"] if e["e"] == "stepend"]
        accs = "[" + "; ".join("(I.div iprec %s (I.fromZ iprec %d))" % (idy(N.bf(e["alpha"])), e["nalpha"]) for e in ends) + "]"
        parts.append("da_run_eval %s %s %s %s %s %s %s %s %s %s" % (
            idy(delta), idy(gamma), idy(kappa), C.natlit(run["d"]), C.natlit(p[0]),
            idy(N.bf(p[1])), idy(N.bf(p[2])), idy(N.bf(p[3])), idy(N.bf(p[4])), accs))
    hs = hbar_steps(case, out)
    if hs:
        fn = "hbar_step32" if case["f"] == "f32" else "hbar_step64"
        tb = lambda b: N.tbits(case["f"], b)
        dl = tb(fb(tround(case["f"], case["accept"])))
        parts.append("[%s]" % C.z(HMARK))
        for (p, a, na, st) in hs:
            parts.append("%s %d %d %d %s %s" % (fn, dl, tb(p[3]), tb(a), C.natlit(st[0]), C.natlit(na)))
    return " ++ ".join("(%s)" % q for q in parts)


def hbar_steps(case, out):
    """(previous state, alpha bits, n_alpha, next state) of up to 60 transitions with finite inputs: the H_bar update is
    evaluated bit-exactly in Flocq (Model.NUTSEval.hbar_step)"""
    res = []
    for (nd, p, a, na, st) in steps(case, out):
        if na >= 1 and math.isfinite(N.bf(p[3])) and math.isfinite(N.bf(a)):
            res.append((p, a, na, st))
    return res[:30] + res[-30:] if len(res) > 60 else res


def whole_runs(out):
    """runs short enough for Model.DualAvg.da_run as a whole (rounding differences accumulate over the run)"""
    res = []
    for run in out["runs"]:
        ends = [e for e in run["events"] if e["e"] == "stepend"]
        if 1 <= len(run["states"]) <= 24 and len(ends) == len(run["states"]) and \
                all(math.isfinite(N.bf(e["alpha"])) and e["nalpha"] >= 1 for e in ends) and \
                all(math.isfinite(N.bf(x)) for st in [run["after_init"]] + run["states"] for x in st[1:5]):
            res.append(run)
    return res


def ival(model, pos):
    def one(k):
        s, m, e = model[k:k + 3]
        if s == 2:
            return None
        return Fraction(s * m) * (Fraction(2) ** e)
    return one(pos), one(pos + 3)


def inside(x, lo, hi, tol):
    if lo is None or hi is None:
        return True
    w = tol * max(abs(lo), abs(hi), Fraction(1, 10 ** 30))
    return lo - w <= Fraction(x) <= hi + w


def tols(case, p):
    ulp = 2.0 ** -23 if case["f"] == "f32" else 2.0 ** -52
    m = p[0] + 1
    amp = math.sqrt(m) / 0.05
    h = abs(N.bf(p[3])) + 1
    t_h = Fraction(16 * ulp)
    t_eps = Fraction(32 * ulp * (2 + abs(N.bf(p[4])) + amp * h))
    t_eb = t_eps + Fraction(32 * ulp * (2 + abs(math.log(max(1e-300, abs(N.bf(p[2])))))))
    return t_eps, t_eb, t_h


def compare(case, out, model):
    if "timeout" in out or "crash" in out:
        return None
    if "panic" in out:
        return "implementation panicked: " + out["panic"]
    if model is None:
        return None
    if case["op"] == "find_eps":
        lo = Fraction(model[0], model[1])
        hi = Fraction(model[2], model[3])
        _, margin = find_eps_exact(case)
        if lo != hi or margin < 1e-3:
            return None          # a test within rounding of ln(1/2): ambiguous, skipped
        if Fraction(N.bf(out["eps"])) != lo:
            return "find_reasonable_epsilon returned %r, model find_eps_gen gives %s" % (N.bf(out["eps"]), float(lo))
        return None
    ss, pick = sel(case, out)
    pos = 0
    for i in pick:
        nd, p, a, na, s = ss[i]
        t_eps, t_eb, t_h = tols(case, p)
        for name, k, tol in (("eps", 1, t_eps), ("eps_bar", 2, t_eb), ("h_bar", 3, t_h)):
            lo, hi = ival(model, pos)
            pos += 6
            x = N.bf(s[k])
            if not math.isfinite(x):
                return "transition m=%d: %s is %r" % (s[0], name, x)
            if name == "h_bar":
                okk = lo is None or (lo - tol <= Fraction(x) <= hi + tol)
            else:
                okk = inside(x, lo, hi, tol)
            if not okk:
                return "transition m=%d (warm-up %d): %s = %.10g, dual-averaging model encloses [%.10g, %.10g]" % (
                    s[0], nd, name, x, float(lo), float(hi))
    for run in out["runs"]:
        lo, hi = ival(model, pos)
        pos += 6
        mu = N.bf(run["after_init"][4])
        ulp = 2.0 ** -23 if case["f"] == "f32" else 2.0 ** -52
        if lo is not None and not (lo - Fraction(8 * ulp * (1 + abs(mu))) <= Fraction(mu) <= hi + Fraction(8 * ulp * (1 + abs(mu)))):
            return "mu after init_chain = %.10g, model ln(10 eps) in [%.10g, %.10g]" % (mu, float(lo), float(hi))
    for run in whole_runs(out):
        k = len(run["states"])
        fin = run["states"][-1]
        if model[pos] != fin[0]:
            return "run of %d transitions from m=%d: counter %d, model da_run gives %d" % (k, run["after_init"][0], fin[0], model[pos])
        pos += 1
        worst = [Fraction(0)] * 3
        for st in [run["after_init"]] + run["states"][:-1]:
            for j, t in enumerate(tols(case, st)):
                worst[j] = max(worst[j], t)
        for name, j, tol in (("eps", 1, worst[0] * 8 * k), ("eps_bar", 2, worst[1] * 8 * k), ("h_bar", 3, worst[2] * 2 * k), ("mu", 4, Fraction(2.0 ** -20))):
            lo, hi = ival(model, pos)
            pos += 6
            x = N.bf(fin[j])
            okk = lo is None or ((lo - tol <= Fraction(x) <= hi + tol) if name in ("h_bar", "mu") else inside(x, lo, hi, tol))
            if not okk:
                return "end of a run of %d transitions (warm-up %d, from m=%d): %s = %.10g, Model.DualAvg.da_run encloses [%.10g, %.10g]" % (
                    k, run["d"], run["after_init"][0], name, x, float(lo), float(hi))
    if pos < len(model) and model[pos] == HMARK:
        pos += 1
        for (p, a, na, st) in hbar_steps(case, out):
            got = N.tbits(case["f"], st[3])
            if got != model[pos]:
                conv = C.f32_bits_to_float if case["f"] == "f32" else C.f64_bits_to_float
                return ("transition m=%d: H_bar = %r (bits %d); (1 - eta) * H_bar + eta * (delta - alpha/n_alpha) with eta = 1/(m + 10), "
                        "evaluated in IEEE arithmetic (Model.NUTSEval.hbar_step), gives %r (bits %d)" % (
                            st[0], N.bf(st[3]), got, conv(model[pos]), model[pos]))
            pos += 1
    if pos != len(model):
        return "internal: %d model numbers, %d consumed" % (len(model), pos)
    return None


def oracle(case, out):
    """Property text: follows dual averaging during the first n_discard transitions, afterwards eps = eps_bar and never
    changes; positive and finite throughout; m persists across run() calls."""
    if "crash" in out:
        return "NUTS run did not finish: %s" % out
    if "timeout" in out:
        return None              # judged over the whole batch in global_check (slow is not wrong, see there)
    if "panic" in out:
        return "NUTS run panicked: " + out["panic"]
    if case["op"] == "multi":
        for i, (w, a) in enumerate(zip(out["wrapper"], out["alone"])):
            if w != a:
                names = ["m", "eps", "eps_bar", "h_bar", "mu", "n_discard"]
                j = [k for k in range(6) if w[k] != a[k]][0]
                val = lambda v, k: v[k] if k in (0, 5) else N.bf(v[k])
                return ("NUTS with %d chains (%s, n=%d, d=%d): chain %d started at %s ends with %s = %r, a stand-alone chain from the same "
                        "start point and seed has %r (initial step size / shrinkage point must come from the heuristic at the chain's own "
                        "start point)" % (len(case["inits"]), "run_progress" if case["progress"] else "run", case["n"], case["d"], i,
                                          [N.bf(b) for b in case["inits"][i]], names[j], val(w, j), val(a, j)))
        return None
    if case["op"] == "find_eps":
        eps, margin = find_eps_exact(case)
        got = N.bf(out["eps"])
        if not (got > 0 and math.isfinite(got)):
            return "initial step size %r" % got
        if eps is not None and margin >= 1e-3 and Fraction(got) != eps:
            return ("find_reasonable_epsilon from position %s, momentum %s: returned %r; doubling/halving from 1/2 until the "
                    "acceptance probability of one leapfrog step crosses 1/2 gives %s" % (
                        [N.bf(b) for b in case["position"]], [N.bf(b) for b in case["momentum"]], got, float(eps)))
        return None
    f = case["f"]
    delta, gamma, kappa = consts(case)
    ulp = 2.0 ** -23 if f == "f32" else 2.0 ** -52
    m_prev = 0
    for ri, run in enumerate(out["runs"]):
        if run["before_init"][0] != m_prev:
            return "run %d starts with m = %d, previous run ended at %d" % (ri, run["before_init"][0], m_prev)
        prev = run["after_init"]
        if prev[0] != run["before_init"][0]:
            return ("run %d (run(%d, %d)): the start of the run changed the transition counter from %d to %d — the warm-up counter must "
                    "persist across run() calls" % (ri, run["n"], run["d"], run["before_init"][0], prev[0]))
        if ri > 0 and (prev[1] != run["before_init"][1] or prev[2] != run["before_init"][2] or prev[3] != run["before_init"][3]):
            return "run %d: the start of a later run changed the step size / averaged step size / H_bar" % ri
        mu = N.bf(prev[4])
        e0 = N.bf(prev[1])
        if not (e0 > 0 and math.isfinite(e0)):
            return "initial step size %r" % e0
        if abs(mu - math.log(10 * e0)) > 1e-5 * (1 + abs(mu)):
            return "run %d: shrinkage point mu = %r, ln(10 eps0) = %r" % (ri, mu, math.log(10 * e0))
        ends = [e for e in run["events"] if e["e"] == "stepend"]
        nd = run["d"]
        for st, e in zip(run["states"], ends):
            m = st[0]
            eps, eb, h = N.bf(st[1]), N.bf(st[2]), N.bf(st[3])
            if m != prev[0] + 1:
                return "m went from %d to %d" % (prev[0], m)
            if not (eps > 0 and math.isfinite(eps) and eb > 0 and math.isfinite(eb)):
                return "%s (start %s, accept %s, seed %s, run(%d, %d)), transition m=%d: step size %r / averaged %r not positive finite" % (
                    case["target"]["kind"], [N.bf(b) for b in case["init"]], case["accept"], case["seed"], run["n"], run["d"], m, eps, eb)
            a = N.bf(e["alpha"]) / e["nalpha"] if e["nalpha"] else float("nan")
            if not (0.0 <= a <= 1.0):
                return "%s, transition m=%d: acceptance statistic alpha/n_alpha = %r/%d driving the adaptation is not in [0, 1]" % (
                    case["target"]["kind"], m, N.bf(e["alpha"]), e["nalpha"])
            eta = 1.0 / (m + 10)
            h_ref = (1 - eta) * N.bf(prev[3]) + eta * (delta - a)
            if abs(h - h_ref) > 64 * ulp * (1 + abs(h_ref)):
                return "transition m=%d: H_bar = %r, dual averaging gives %r" % (m, h, h_ref)
            if m <= nd:
                t_eps, t_eb, _ = tols(case, prev)
                eps_ref = math.exp(mu - math.sqrt(m) / gamma * h)
                if abs(eps - eps_ref) > float(t_eps) * eps_ref * 4:
                    return "warm-up transition m=%d of %d: eps = %r, dual averaging (gamma 0.05, t0 10) gives %r" % (m, nd, eps, eps_ref)
                w = m ** (-kappa)
                eb_ref = math.exp((1 - w) * math.log(N.bf(prev[2])) + w * math.log(eps))
                if abs(eb - eb_ref) > float(t_eb) * eb_ref * 4:
                    return "warm-up transition m=%d: averaged step size %r, kappa=0.75 averaging gives %r" % (m, eb, eb_ref)
            else:
                if st[1] != st[2]:
                    return "transition m=%d after warm-up (%d): step size %r differs from the averaged iterate %r" % (m, nd, eps, eb)
                if st[2] != prev[2]:
                    return "transition m=%d after warm-up (%d): averaged step size changed from %r to %r" % (m, nd, N.bf(prev[2]), eb)
            prev = st
        m_prev = prev[0]
    return None


def finding_class(case, out, d):
    return None


def timeout_budget(n_cases):
    return max(2, n_cases // 50)


def global_check(cases, outs):
    """Watchdog hits. This NUTS has no tree-depth cap: after a divergent phase dual averaging legitimately proposes step
    sizes around 1e-6, and one transition then needs ~2^21 leapfrog steps (observed in the thorough tier: accept 0.98,
    warm-up resumed in a later run() after two discarded divergent transitions; the run is slow, not wrong, and nothing in
    the property bounds run time). A few such cases are recorded as inconclusive; more than 2 % of the batch timing out is
    reported, because then runs in general do not finish."""
    idx = [i for i, o in enumerate(outs) if isinstance(o, dict) and "timeout" in o]
    if len(idx) > timeout_budget(len(cases)):
        return [(idx[0], "%d of %d NUTS runs did not finish within the watchdog (%s s); first: %s" % (
            len(idx), len(cases), outs[idx[0]]["timeout"], json.dumps(cases[idx[0]])[:300]))]
    return []


def nontrivial(case, out):
    if case["op"] == "find_eps":
        return True
    if case["op"] == "multi":
        return "wrapper" in out and len({w[4] for w in out["wrapper"]}) >= 2      # chains really have different shrinkage points
    if "runs" not in out:
        return False
    if len(case["runs"]) >= 2:
        return True
    n, d = case["runs"][0]
    return d >= 5 and n >= 3


def extra(cases, outs, model):
    warm = post = 0
    for c, o in zip(cases, outs):
        if c["op"] != "transitions":
            continue
        for (nd, p, a, na, s) in steps(c, o):
            if s[0] <= nd:
                warm += 1
            else:
                post += 1
    return {"warmup_transitions": warm, "post_warmup_transitions": post,
            "interval_checked": sum(len(sel(c, o)[1]) for c, o in zip(cases, outs) if c["op"] == "transitions"),
            "multi_run_cases": sum(1 for c in cases if c["op"] == "transitions" and len(c["runs"]) >= 2),
            "watchdog_inconclusive": [C.abbrev(c) for c, o in zip(cases, outs) if isinstance(o, dict) and "timeout" in o][:5],
            "watchdog_inconclusive_count": sum(1 for o in outs if isinstance(o, dict) and "timeout" in o),
            "hbar_bitexact_steps": sum(len(hbar_steps(c, o)) for c, o in zip(cases, outs) if c["op"] == "transitions" and isinstance(o, dict) and "runs" in o),
            "whole_runs_checked": sum(len(whole_runs(o)) for c, o in zip(cases, outs) if c["op"] == "transitions" and "runs" in o),
            "find_eps_cases": sum(1 for c in cases if c["op"] == "find_eps"),
            "find_eps_values": sorted({N.bf(o["eps"]) for c, o in zip(cases, outs) if c["op"] == "find_eps" and "eps" in o})}


def corrupt(model):
    """interval bounds are encoded [sign, mantissa, exponent] x 2: shift every exponent by 3 (value x 8);
    find_eps outputs (4 numbers: two rationals) get their numerators tripled"""
    if len(model) == 4:
        return [model[0] * 3, model[1], model[2] * 3, model[3]]
    return [x + 3 if i % 3 == 2 else x for i, x in enumerate(model)]
