(* Model of src/io: row layout of save_csv / save_arrow / save_parquet (Array3, axis iteration),
   save_csv_tensor (flat buffer, offset c*O*D + o*D) and save_parquet_tensor (documented
   [observation, chain, dim] order, offset o*C*D + c*D); header; widening f32 -> f64. *)
From MiniMcmc Require Export Base.Fp Base.Util.

Section Layout.
  Context {A : Type}.

  Definition slice (off len : nat) (l : list A) : list A := firstn len (skipn off l).

  (* row = (first label, second label, values) *)
  Definition row : Type := (nat * nat * list A)%type.

  (* Array3 entry points: iterate axis 0 (chain) then axis 0 of the chain (observation) *)
  Definition rows_array (a : list (list (list A))) : list row :=
    concat (map (fun ca => map (fun ov => (fst ca, fst ov, snd ov)) (combine (seq 0 (length (snd ca))) (snd ca)))
                (combine (seq 0 (length a)) a)).

  (* save_csv_tensor: shape [C, O, D], flat row-major buffer *)
  Definition rows_tensor (C O D : nat) (flat : list A) : list row :=
    concat (map (fun c => map (fun o => (c, o, slice (c * O * D + o * D) D flat)) (seq 0 O)) (seq 0 C)).

  (* save_parquet_tensor: shape [O, C, D] (observation-major), labels (observation, chain) *)
  Definition rows_parquet_tensor (O C D : nat) (flat : list A) : list row :=
    concat (map (fun o => map (fun c => (o, c, slice (o * C * D + c * D) D flat)) (seq 0 C)) (seq 0 O)).

  (* row-major flattening of a C x O x D array *)
  Definition flatten3 (a : list (list (list A))) : list A := concat (map (@concat A) a).
End Layout.

(* header: ["chain"; "observation"; dim_0 .. dim_{D-1}] encoded as codes: 0 = chain, 1 = observation, 2+j = dim_j *)
Definition header_codes (D : nat) : list nat := 0 :: 1 :: map (fun j => 2 + j) (seq 0 D).
Definition header_codes_parquet_tensor (D : nat) : list nat := 1 :: 0 :: map (fun j => 2 + j) (seq 0 D).

(* widening f32 -> f64 (`Into<f64>`): exact *)
Definition widen (x : binary32) : binary64 :=
  match x with
  | Binary.B754_zero _ _ s => Binary.B754_zero 53 1024 s
  | Binary.B754_infinity _ _ s => Binary.B754_infinity 53 1024 s
  | Binary.B754_nan _ _ s _ _ => Binary.B754_nan 53 1024 s 2251799813685248 (eq_refl true)
  | Binary.B754_finite _ _ s m e _ =>
      Binary.binary_normalize 53 1024 prec64 emax64 mode_NE (cond_Zopp s (Zpos m)) e s
  end.
Definition widen_bits (b : Z) : Z := bits_of_b64 (widen (b32_of_bits b)).

(* evaluation: each row rendered as [label1; label2; values...] *)
Definition render_rows (rs : list (nat * nat * list Z)) : list Z :=
  concat (map (fun r => Z.of_nat (fst (fst r)) :: Z.of_nat (snd (fst r)) :: snd r) rs).
Definition export_tensor_eval (C O D : nat) (flat : list Z) : list Z := render_rows (rows_tensor C O D flat).
Definition export_parquet_tensor_eval (O C D : nat) (flat : list Z) : list Z := render_rows (rows_parquet_tensor O C D flat).
Fixpoint chunk {A} (k n : nat) (l : list A) : list (list A) :=
  match k with O => [] | S k' => firstn n l :: chunk k' n (skipn n l) end.
Definition unflatten3 {A} (C O D : nat) (flat : list A) : list (list (list A)) :=
  map (chunk O D) (chunk C (O * D) flat).
Definition export_array_eval (C O D : nat) (flat : list Z) : list Z := render_rows (rows_array (unflatten3 C O D flat)).
Definition widen_eval (bits : list Z) : list Z := map widen_bits bits.
(* header of the written file as codes (0 = "chain", 1 = "observation", 2+j = "dim_j") *)
Definition header_eval (parquet_tensor : bool) (D : nat) : list Z :=
  map Z.of_nat (if parquet_tensor then header_codes_parquet_tensor D else header_codes D).
