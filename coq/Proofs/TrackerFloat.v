(* ChainTracker::step for one parameter IN FLOATING POINT (binary32, round to nearest even):
   Model/Tracker.v trk32_step
     n = n0 + 1;  mean' = (mean * (n - 1) + x) / n;
     msq' = x*x if n = 1 else (msq * (n - 1) + x*x) / n.
   (1) the first update stores the value itself and the rounded square;
   (2) a later update is the real expression with each operation rounded, and is finite
       (the count n and n - 1 are converted / computed exactly while n <= 2^24);
   (3) one update is within 3 * 2^(k-24) (mean) resp. 4 * 2^(2k-24) (mean of squares) of the
       exact running-mean update of Model/Stats.v, for magnitudes at most 2^k resp. 2^(2k);
   (4) the bounds |mean| <= 2^k, 0 <= msq <= 2^(2k) are preserved by every update, hence along
       any history of at most 2^24 states of magnitude at most 2^k;
   (5) after n such states the float mean is within 3 * 2^(k-24) * (n + 1) / 2 of the exact
       running mean (Model/Stats.v trk_run at numR, which is the mean of the states: C13_mean).
   Statements are about Flocq's Bplus / Bminus / Bmult / Bdiv at 24 / 128. *)
From MiniMcmc Require Import Base.Fp Base.Num Model.Stats Model.Tracker Proofs.Tracker Proofs.AlphaRange
  Proofs.HbarStep.
From Coq Require Import Reals Lra Lia.
From Flocq Require Import Core Binary Bits Relative.
Local Open Scope R_scope.

Notation rnd32 := (round radix2 (FLT_exp (-149) 24) ZnearestE).
Local Notation gf32 := (generic_format radix2 (FLT_exp (-149) 24)).
Local Notation R32 := (B2R 24 128).
Local Notation fin32 := (is_finite 24 128).

Local Instance tf_valid_exp : Valid_exp (FLT_exp (-149) 24) := FLT_exp_valid (-149) 24.
Local Instance tf_valid_rnd : Valid_rnd ZnearestE := valid_rnd_N _.

Lemma tf_prec2 : (2 <= 24)%Z.
Proof. lia. Qed.

(* ------------------------------------------------------------------ rounding facts *)
Lemma tf_gf_rnd : forall x : R, gf32 (rnd32 x).
Proof. intros x. apply generic_format_round; [exact tf_valid_exp|exact tf_valid_rnd]. Qed.

Lemma tf_rnd_abs_le : forall x y : R, gf32 y -> Rabs x <= y -> Rabs (rnd32 x) <= y.
Proof.
  intros x y G H. apply abs_round_le_generic; [exact tf_valid_exp|exact tf_valid_rnd|exact G|exact H].
Qed.

Lemma tf_rnd_ge_0 : forall x : R, 0 <= x -> 0 <= rnd32 x.
Proof.
  intros x H. apply round_ge_generic;
    [exact tf_valid_exp|exact tf_valid_rnd|apply generic_format_0|exact H].
Qed.

Lemma tf_rnd_gf : forall x : R, gf32 x -> rnd32 x = x.
Proof. intros x G. apply round_generic; [exact tf_valid_rnd|exact G]. Qed.

Lemma tf_gf_bpow : forall k : Z, (-149 <= k)%Z -> gf32 (bpow radix2 k).
Proof. intros k Hk. apply generic_format_bpow. unfold FLT_exp. lia. Qed.

(* 2^K * n for a count n <= 2^24 is a binary32 number *)
Lemma tf_gf_bpow_count : forall (K : Z) (n : nat), (-149 <= K)%Z -> (Z.of_nat n <= 2 ^ 24)%Z ->
  gf32 (bpow radix2 K * INR n).
Proof.
  intros K n HK Hn. rewrite INR_IZR_INZ.
  destruct (Z.eq_dec (Z.of_nat n) (2 ^ 24)) as [E|Hne].
  - rewrite E. change (2 ^ 24)%Z with (radix_val radix2 ^ 24)%Z.
    rewrite IZR_Zpower by lia. rewrite <- bpow_plus. apply tf_gf_bpow. lia.
  - apply generic_format_FLT.
    apply (FLT_spec radix2 (-149) 24 _ (Float radix2 (Z.of_nat n) K)).
    + unfold F2R. cbn [Fnum Fexp]. ring.
    + cbn [Fnum]. change (radix_val radix2) with 2%Z. rewrite Z.abs_eq by lia. lia.
    + cbn [Fexp]. exact HK.
Qed.

Lemma tf_bpow_lt_emax : forall (v : R) (k : Z), (k < 128)%Z -> Rabs v <= bpow radix2 k ->
  Rabs v < bpow radix2 128.
Proof.
  intros v k Hk Hv. eapply Rle_lt_trans; [exact Hv|]. apply bpow_lt. exact Hk.
Qed.

(* relative rounding error against any bound B >= 2^-126 on the magnitude (underflow included) *)
Lemma tf_rel_err : forall x B : R, bpow radix2 (-126) <= B -> Rabs x <= B ->
  Rabs (rnd32 x - x) <= bpow radix2 (-24) * B.
Proof.
  intros x B HB Hx.
  destruct (Rle_or_lt (bpow radix2 (-126)) (Rabs x)) as [Hbig|Hsmall].
  - pose proof (relative_error_N_FLT radix2 (-149) 24 eq_refl (fun t => negb (Z.even t)) x Hbig) as H.
    eapply Rle_trans; [exact H|].
    replace (/ 2 * bpow radix2 (- (24) + 1)) with (bpow radix2 (-24)).
    + apply Rmult_le_compat_l; [apply bpow_ge_0|exact Hx].
    + change (- (24) + 1)%Z with (-24 + 1)%Z. rewrite bpow_plus. change (bpow radix2 1) with 2. field.
  - assert (Hx' : Rabs x <= bpow radix2 (-125))
      by (left; eapply Rlt_le_trans; [exact Hsmall|apply bpow_le; lia]).
    pose proof (rnd_err_le 24 128 prec32 tf_prec2 x (-125) ltac:(lia) Hx') as H.
    eapply Rle_trans; [exact H|].
    change (-125 - 24 - 1)%Z with (-24 + -126)%Z. rewrite bpow_plus.
    apply Rmult_le_compat_l; [apply bpow_ge_0|exact HB].
Qed.

Lemma tf_div_abs_le : forall d c N : R, 0 < N -> Rabs d <= c * N -> Rabs (d / N) <= c.
Proof.
  intros d c N HN H. unfold Rdiv. rewrite Rabs_mult, (Rabs_pos_eq (/ N)).
  - apply Rmult_le_reg_r with N; [exact HN|]. rewrite Rmult_assoc, Rinv_l by lra. lra.
  - left. apply Rinv_0_lt_compat. exact HN.
Qed.

(* ------------------------------------------------------------------ one operation each *)
Lemma tf_plus : forall x y : binary32, fin32 x = true -> fin32 y = true ->
  Rabs (rnd32 (R32 x + R32 y)) < bpow radix2 128 ->
  R32 (b32_plus mode_NE x y) = rnd32 (R32 x + R32 y) /\ fin32 (b32_plus mode_NE x y) = true.
Proof. exact (fplus_val 24 128 prec32 emax32 binop_nan_pl32). Qed.

Lemma tf_minus : forall x y : binary32, fin32 x = true -> fin32 y = true ->
  Rabs (rnd32 (R32 x - R32 y)) < bpow radix2 128 ->
  R32 (b32_minus mode_NE x y) = rnd32 (R32 x - R32 y) /\ fin32 (b32_minus mode_NE x y) = true.
Proof. exact (fminus_val 24 128 prec32 emax32 binop_nan_pl32). Qed.

Lemma tf_mult : forall x y : binary32, fin32 x = true -> fin32 y = true ->
  Rabs (rnd32 (R32 x * R32 y)) < bpow radix2 128 ->
  R32 (b32_mult mode_NE x y) = rnd32 (R32 x * R32 y) /\ fin32 (b32_mult mode_NE x y) = true.
Proof. exact (fmult_val 24 128 prec32 emax32 binop_nan_pl32). Qed.

Lemma tf_div : forall x y : binary32, fin32 x = true -> R32 y <> 0 ->
  Rabs (rnd32 (R32 x / R32 y)) < bpow radix2 128 ->
  R32 (b32_div mode_NE x y) = rnd32 (R32 x / R32 y) /\ fin32 (b32_div mode_NE x y) = true.
Proof. exact (fdiv_val 24 128 prec32 emax32 binop_nan_pl32). Qed.

(* ------------------------------------------------------------------ the constants and the counts *)
Lemma f32_one_spec : fin32 f32_one = true /\ R32 f32_one = 1.
Proof.
  assert (H : exists p, f32_one = B754_finite 24 128 false 8388608 (-23) p)
    by (vm_compute; eexists; reflexivity).
  destruct H as [p ->]. split; [reflexivity|].
  unfold B2R, F2R. cbn [Fnum Fexp cond_Zopp bpow Z.pow_pos Pos.iter radix_val radix2 Z.mul Pos.mul]. lra.
Qed.

Lemma f32_two_spec : fin32 (b32_of_bits 1073741824) = true /\ R32 (b32_of_bits 1073741824) = 2.
Proof.
  assert (H : exists p, b32_of_bits 1073741824 = B754_finite 24 128 false 8388608 (-22) p)
    by (vm_compute; eexists; reflexivity).
  destruct H as [p ->]. split; [reflexivity|].
  unfold B2R, F2R. cbn [Fnum Fexp cond_Zopp bpow Z.pow_pos Pos.iter radix_val radix2 Z.mul Pos.mul]. lra.
Qed.

Lemma f32_zero_spec : f32_zero = B754_zero 24 128 false.
Proof. vm_compute. reflexivity. Qed.

Lemma cnt32_exact : forall n : nat, (Z.of_nat n <= 2 ^ 24)%Z ->
  fin32 (cnt32 n) = true /\ R32 (cnt32 n) = INR n.
Proof. exact (nat_fl_exact 24 128 prec32 emax32). Qed.

(* (n as f32) - 1.0 is exactly n - 1 *)
Lemma cnt32_minus_one : forall n0 : nat, (Z.of_nat (S n0) <= 2 ^ 24)%Z ->
  fin32 (b32_minus mode_NE (cnt32 (S n0)) f32_one) = true /\
  R32 (b32_minus mode_NE (cnt32 (S n0)) f32_one) = INR n0.
Proof.
  intros n0 Hn. destruct (cnt32_exact (S n0) Hn) as [Fn Vn]. destruct f32_one_spec as [F1 V1].
  assert (E : rnd32 (R32 (cnt32 (S n0)) - R32 f32_one) = INR n0).
  { rewrite Vn, V1, S_INR. replace (INR n0 + 1 - 1) with (INR n0) by ring.
    rewrite INR_IZR_INZ. apply (rnd_small_int 24 128 prec32 emax32). lia. }
  destruct (tf_minus (cnt32 (S n0)) f32_one Fn F1) as [V F].
  - rewrite E. rewrite Rabs_pos_eq by apply pos_INR.
    apply Rle_lt_trans with (IZR (2 ^ 24)).
    + rewrite INR_IZR_INZ. apply IZR_le. lia.
    + exact (pow_prec_lt_bpow_emax 24 128 prec32 emax32).
  - split; [exact F|]. rewrite V. exact E.
Qed.

(* ------------------------------------------------------------------ the running-mean update *)
(* (a * (n - 1) + y) / n with n = n0 + 1: the shape of both components of trk32_step *)
Definition upd32 (n0 : nat) (a y : binary32) : binary32 :=
  b32_div mode_NE
    (b32_plus mode_NE (b32_mult mode_NE a (b32_minus mode_NE (cnt32 (S n0)) f32_one)) y)
    (cnt32 (S n0)).

Lemma trk32_step_unfold : forall (n0 : nat) (mean msq x : binary32),
  trk32_step (n0, mean, msq) x
  = (S n0, upd32 n0 mean x,
     if Nat.eqb (S n0) 1 then b32_mult mode_NE x x else upd32 n0 msq (b32_mult mode_NE x x)).
Proof. reflexivity. Qed.

Lemma tf_N_pos : forall n : nat, 0 < INR (S n).
Proof. intros n. apply lt_0_INR. lia. Qed.
Lemma tf_N_ge1 : forall n : nat, 1 <= INR (S n).
Proof. intros n. rewrite S_INR. pose proof (pos_INR n). lra. Qed.

(* the same on the real line, every operation rounded *)
Definition upd_rnd (n0 : nat) (a y : R) : R :=
  rnd32 (rnd32 (rnd32 (a * INR n0) + y) / INR (S n0)).

Section UpdReal.
  Variables (n0 : nat) (K : Z) (a y : R).
  Hypothesis Hn : (Z.of_nat (S n0) <= 2 ^ 24)%Z.
  Hypothesis HK : (-149 <= K)%Z.
  Hypothesis Ha : Rabs a <= bpow radix2 K.
  Hypothesis Hy : Rabs y <= bpow radix2 K.

  Let B := bpow radix2 K.
  Let p := rnd32 (a * INR n0).
  Let s := rnd32 (p + y).
  Let q := rnd32 (s / INR (S n0)).

  Lemma ur_B_pos : 0 < B.
  Proof. apply bpow_gt_0. Qed.
  Let ur_n_pos : 0 <= INR n0 := pos_INR n0.
  Let ur_N_pos : 0 < INR (S n0) := tf_N_pos n0.
  Let ur_N_ge1 : 1 <= INR (S n0) := tf_N_ge1 n0.

  Lemma ur_an : Rabs (a * INR n0) <= B * INR n0.
  Proof.
    rewrite Rabs_mult, (Rabs_pos_eq (INR n0)) by exact ur_n_pos.
    apply Rmult_le_compat_r; [exact ur_n_pos|exact Ha].
  Qed.

  Lemma ur_p : Rabs p <= B * INR n0.
  Proof. apply tf_rnd_abs_le; [apply tf_gf_bpow_count; [exact HK|lia]|exact ur_an]. Qed.

  Lemma ur_py : Rabs (p + y) <= B * INR (S n0).
  Proof.
    eapply Rle_trans; [apply Rabs_triang|]. rewrite S_INR. pose proof ur_p. fold B in Hy. lra.
  Qed.

  Lemma ur_s : Rabs s <= B * INR (S n0).
  Proof. apply tf_rnd_abs_le; [apply tf_gf_bpow_count; [exact HK|exact Hn]|exact ur_py]. Qed.

  Lemma ur_sN : Rabs (s / INR (S n0)) <= B.
  Proof. apply tf_div_abs_le; [exact ur_N_pos|exact ur_s]. Qed.

  Lemma ur_q : Rabs q <= B.
  Proof. apply tf_rnd_abs_le; [apply tf_gf_bpow; exact HK|exact ur_sN]. Qed.

  Lemma ur_BN_le : B * INR (S n0) <= bpow radix2 (K + 24).
  Proof.
    rewrite bpow_plus. apply Rmult_le_compat_l; [left; exact ur_B_pos|].
    rewrite INR_IZR_INZ. change (bpow radix2 24) with (IZR (2 ^ 24)). apply IZR_le. exact Hn.
  Qed.

  Lemma ur_Bn_le : B * INR n0 <= bpow radix2 (K + 24).
  Proof.
    eapply Rle_trans; [|exact ur_BN_le]. apply Rmult_le_compat_l; [left; exact ur_B_pos|].
    rewrite S_INR. lra.
  Qed.

  Lemma ur_nonneg : 0 <= a -> 0 <= y -> 0 <= q.
  Proof.
    intros Ha0 Hy0.
    assert (Hp : 0 <= p) by (apply tf_rnd_ge_0, Rmult_le_pos; [exact Ha0|exact ur_n_pos]).
    assert (Hs : 0 <= s) by (apply tf_rnd_ge_0; lra).
    apply tf_rnd_ge_0. apply Rmult_le_pos; [exact Hs|]. left. apply Rinv_0_lt_compat, ur_N_pos.
  Qed.

  (* distance to the exact update *)
  Lemma ur_error : (-126 <= K)%Z ->
    Rabs (q - (a * INR n0 + y) / INR (S n0)) <= 3 * bpow radix2 (K - 24).
  Proof.
    intros HK126.
    pose proof ur_N_pos as HN. pose proof ur_N_ge1 as HN1. pose proof ur_B_pos as HB.
    assert (HBm : bpow radix2 (-126) <= B) by (apply bpow_le; exact HK126).
    assert (HBN : bpow radix2 (-126) <= B * INR (S n0)) by nra.
    assert (Eu : bpow radix2 (K - 24) = bpow radix2 (-24) * B).
    { unfold B. rewrite <- bpow_plus. f_equal. lia. }
    assert (E1 : Rabs (p - a * INR n0) <= bpow radix2 (-24) * (B * INR (S n0))).
    { apply tf_rel_err; [exact HBN|]. eapply Rle_trans; [exact ur_an|].
      apply Rmult_le_compat_l; [lra|]. rewrite S_INR. lra. }
    assert (E2 : Rabs (s - (p + y)) <= bpow radix2 (-24) * (B * INR (S n0)))
      by (apply tf_rel_err; [exact HBN|exact ur_py]).
    assert (E3 : Rabs (q - s / INR (S n0)) <= bpow radix2 (-24) * B)
      by (apply tf_rel_err; [exact HBm|exact ur_sN]).
    assert (D1 : Rabs ((p - a * INR n0) / INR (S n0)) <= bpow radix2 (-24) * B)
      by (apply tf_div_abs_le; [exact HN|lra]).
    assert (D2 : Rabs ((s - (p + y)) / INR (S n0)) <= bpow radix2 (-24) * B)
      by (apply tf_div_abs_le; [exact HN|lra]).
    replace (q - (a * INR n0 + y) / INR (S n0))
      with ((q - s / INR (S n0)) + (s - (p + y)) / INR (S n0) + (p - a * INR n0) / INR (S n0))
      by (field; lra).
    rewrite Eu.
    eapply Rle_trans; [apply Rabs_triang|].
    eapply Rle_trans; [apply Rplus_le_compat_r, Rabs_triang|]. lra.
  Qed.
End UpdReal.

(* the float update computes upd_rnd, is finite and stays within the magnitude bound *)
Lemma upd32_spec : forall (n0 : nat) (K : Z) (a y : binary32),
  (Z.of_nat (S n0) <= 2 ^ 24)%Z -> (-149 <= K <= 103)%Z ->
  fin32 a = true -> fin32 y = true ->
  Rabs (R32 a) <= bpow radix2 K -> Rabs (R32 y) <= bpow radix2 K ->
  R32 (upd32 n0 a y) = upd_rnd n0 (R32 a) (R32 y) /\ fin32 (upd32 n0 a y) = true.
Proof.
  intros n0 K a y Hn [HK HK2] Fa Fy Ha Hy.
  destruct (cnt32_exact (S n0) Hn) as [FN VN].
  destruct (cnt32_minus_one n0 Hn) as [Fm Vm].
  pose proof (tf_N_pos n0) as HN.
  assert (Hk : (K + 24 < 128)%Z) by lia.
  unfold upd32, upd_rnd.
  set (nm1 := b32_minus mode_NE (cnt32 (S n0)) f32_one) in *.
  destruct (tf_mult a nm1 Fa Fm) as [Vp Fp].
  { rewrite Vm. apply (tf_bpow_lt_emax _ (K + 24) Hk).
    eapply Rle_trans; [exact (ur_p n0 K (R32 a) Hn HK Ha)|exact (ur_Bn_le n0 K Hn)]. }
  rewrite Vm in Vp.
  destruct (tf_plus _ y Fp Fy) as [Vs Fs].
  { rewrite Vp. apply (tf_bpow_lt_emax _ (K + 24) Hk).
    eapply Rle_trans; [exact (ur_s n0 K (R32 a) (R32 y) Hn HK Ha Hy)|exact (ur_BN_le n0 K Hn)]. }
  rewrite Vp in Vs.
  destruct (tf_div _ (cnt32 (S n0)) Fs) as [Vq Fq].
  { rewrite VN. lra. }
  { rewrite Vs, VN. apply (tf_bpow_lt_emax _ K ltac:(lia)).
    exact (ur_q n0 K (R32 a) (R32 y) Hn HK Ha Hy). }
  rewrite Vs, VN in Vq. split; [exact Vq|exact Fq].
Qed.

(* the square of the new state *)
Lemma sq32_spec : forall (k : Z) (x : binary32), (2 * k < 128)%Z -> fin32 x = true ->
  Rabs (R32 x) <= bpow radix2 k ->
  R32 (b32_mult mode_NE x x) = rnd32 (R32 x * R32 x) /\ fin32 (b32_mult mode_NE x x) = true /\
  0 <= R32 (b32_mult mode_NE x x) /\
  ((-149 <= 2 * k)%Z -> R32 (b32_mult mode_NE x x) <= bpow radix2 (2 * k)).
Proof.
  intros k x Hk Fx Hx.
  assert (Hxx : Rabs (R32 x * R32 x) <= bpow radix2 (2 * k)).
  { replace (2 * k)%Z with (k + k)%Z by lia. rewrite bpow_plus.
    apply mul_abs_le; exact Hx. }
  set (k' := Z.max (2 * k) (-149)).
  assert (Hr : Rabs (rnd32 (R32 x * R32 x)) <= bpow radix2 k').
  { apply tf_rnd_abs_le; [apply tf_gf_bpow; unfold k'; lia|].
    eapply Rle_trans; [exact Hxx|]. apply bpow_le. unfold k'. lia. }
  destruct (tf_mult x x Fx Fx) as [V F].
  { apply (tf_bpow_lt_emax _ k'); [unfold k'; lia|exact Hr]. }
  split; [exact V|]. split; [exact F|]. rewrite V. split.
  - apply tf_rnd_ge_0. apply Rle_0_sqr.
  - intros Hk2. apply Rle_trans with (Rabs (rnd32 (R32 x * R32 x))); [apply Rle_abs|].
    replace k' with (2 * k)%Z in Hr by (unfold k'; lia). exact Hr.
Qed.

(* ------------------------------------------------------------------ (1) the first update *)
Theorem trk32_first_update : forall x : binary32,
  fin32 x = true -> Rabs (R32 x) <= bpow radix2 60 ->
  let '(n, mean, msq) := trk32_step (O, f32_zero, f32_zero) x in
  n = 1%nat /\ fin32 mean = true /\ fin32 msq = true /\
  R32 mean = R32 x /\ R32 msq = rnd32 (R32 x * R32 x).
Proof.
  intros x Fx Hx. rewrite trk32_step_unfold. cbn [Nat.eqb].
  destruct (sq32_spec 60 x ltac:(lia) Fx Hx) as (Vq & Fq & _).
  assert (H0k : Rabs (R32 f32_zero) <= bpow radix2 60).
  { rewrite f32_zero_spec. cbn [B2R]. rewrite Rabs_R0. apply bpow_ge_0. }
  assert (F0 : fin32 f32_zero = true) by (rewrite f32_zero_spec; reflexivity).
  destruct (upd32_spec O 60 f32_zero x ltac:(vm_compute; discriminate) ltac:(lia) F0 Fx H0k Hx) as [V F].
  split; [reflexivity|]. split; [exact F|]. split; [exact Fq|]. split; [|exact Vq].
  rewrite V. unfold upd_rnd. rewrite f32_zero_spec. cbn [B2R INR].
  rewrite Rmult_0_l, round_0 by exact tf_valid_rnd. rewrite Rplus_0_l.
  assert (G : gf32 (R32 x)) by (apply (generic_format_B2R 24 128)).
  rewrite (tf_rnd_gf _ G). unfold Rdiv. rewrite Rinv_1, Rmult_1_r. exact (tf_rnd_gf _ G).
Qed.

(* ------------------------------------------------------------------ (2) a later update *)
Theorem trk32_update_rounded_value : forall (n0 : nat) (mean msq x : binary32),
  (1 <= n0)%nat -> (Z.of_nat n0 < 2 ^ 24)%Z ->
  fin32 mean = true -> fin32 msq = true -> fin32 x = true ->
  Rabs (R32 mean) <= bpow radix2 40 -> Rabs (R32 msq) <= bpow radix2 40 ->
  Rabs (R32 x) <= bpow radix2 40 ->
  let '(n, mean', msq') := trk32_step (n0, mean, msq) x in
  n = S n0 /\ fin32 mean' = true /\ fin32 msq' = true /\
  R32 mean' = rnd32 (rnd32 (rnd32 (R32 mean * INR n0) + R32 x) / INR (S n0)) /\
  R32 msq' = rnd32 (rnd32 (rnd32 (R32 msq * INR n0) + rnd32 (R32 x * R32 x)) / INR (S n0)).
Proof.
  intros n0 mean msq x Hn1 Hn Fm Fq Fx Hm Hq Hx. rewrite trk32_step_unfold.
  assert (E : Nat.eqb (S n0) 1 = false) by (apply Nat.eqb_neq; lia). rewrite E.
  assert (HN : (Z.of_nat (S n0) <= 2 ^ 24)%Z) by lia.
  destruct (upd32_spec n0 40 mean x HN ltac:(lia) Fm Fx Hm Hx) as [Vm' Fm'].
  destruct (sq32_spec 40 x ltac:(lia) Fx Hx) as (Vxx & Fxx & Pxx & Bxx).
  assert (Hq80 : Rabs (R32 msq) <= bpow radix2 80)
    by (eapply Rle_trans; [exact Hq|apply bpow_le; lia]).
  assert (Hxx80 : Rabs (R32 (b32_mult mode_NE x x)) <= bpow radix2 80)
    by (rewrite Rabs_pos_eq by exact Pxx; apply Bxx; lia).
  destruct (upd32_spec n0 80 msq _ HN ltac:(lia) Fq Fxx Hq80 Hxx80) as [Vq' Fq'].
  split; [reflexivity|]. split; [exact Fm'|]. split; [exact Fq'|].
  split; [exact Vm'|]. rewrite Vq', Vxx. reflexivity.
Qed.

(* ------------------------------------------------------------------ (3) one-step error *)
Theorem trk32_update_error_mean : forall (k : Z) (n0 : nat) (mean msq x : binary32),
  (Z.of_nat n0 < 2 ^ 24)%Z -> (-126 <= k <= 103)%Z ->
  fin32 mean = true -> fin32 x = true ->
  Rabs (R32 mean) <= bpow radix2 k -> Rabs (R32 x) <= bpow radix2 k ->
  let '(n, mean', msq') := trk32_step (n0, mean, msq) x in
  fin32 mean' = true /\
  Rabs (R32 mean' - (R32 mean * INR n0 + R32 x) / INR (S n0)) <= 3 * bpow radix2 (k - 24).
Proof.
  intros k n0 mean msq x Hn Hk Fm Fx Hm Hx. rewrite trk32_step_unfold.
  assert (HN : (Z.of_nat (S n0) <= 2 ^ 24)%Z) by lia.
  destruct (upd32_spec n0 k mean x HN ltac:(lia) Fm Fx Hm Hx) as [V F].
  split; [exact F|]. rewrite V. unfold upd_rnd.
  apply ur_error; [exact HN|lia|exact Hm|exact Hx|lia].
Qed.

Theorem trk32_update_error_msq : forall (k : Z) (n0 : nat) (mean msq x : binary32),
  (1 <= n0)%nat -> (Z.of_nat n0 < 2 ^ 24)%Z -> (-63 <= k <= 51)%Z ->
  fin32 msq = true -> fin32 x = true ->
  Rabs (R32 msq) <= bpow radix2 (2 * k) -> Rabs (R32 x) <= bpow radix2 k ->
  let '(n, mean', msq') := trk32_step (n0, mean, msq) x in
  fin32 msq' = true /\
  Rabs (R32 msq' - (R32 msq * INR n0 + R32 x * R32 x) / INR (S n0)) <= 4 * bpow radix2 (2 * k - 24).
Proof.
  intros k n0 mean msq x Hn1 Hn Hk Fq Fx Hq Hx. rewrite trk32_step_unfold.
  assert (E : Nat.eqb (S n0) 1 = false) by (apply Nat.eqb_neq; lia). rewrite E.
  assert (HN : (Z.of_nat (S n0) <= 2 ^ 24)%Z) by lia.
  destruct (sq32_spec k x ltac:(lia) Fx Hx) as (Vxx & Fxx & Pxx & Bxx).
  assert (Hxx : Rabs (R32 (b32_mult mode_NE x x)) <= bpow radix2 (2 * k))
    by (rewrite Rabs_pos_eq by exact Pxx; apply Bxx; lia).
  destruct (upd32_spec n0 (2 * k) msq _ HN ltac:(lia) Fq Fxx Hq Hxx) as [V F].
  split; [exact F|]. rewrite V. unfold upd_rnd.
  pose proof (ur_error n0 (2 * k) (R32 msq) (R32 (b32_mult mode_NE x x)) HN ltac:(lia) Hq Hxx
                ltac:(lia)) as H1.
  pose proof (tf_N_pos n0) as HNp. pose proof (tf_N_ge1 n0) as HN1.
  assert (Hsq : Rabs (R32 x * R32 x) <= bpow radix2 (2 * k)).
  { replace (2 * k)%Z with (k + k)%Z by lia. rewrite bpow_plus. apply mul_abs_le; exact Hx. }
  assert (Eu : bpow radix2 (2 * k - 24) = bpow radix2 (-24) * bpow radix2 (2 * k)).
  { rewrite <- bpow_plus. f_equal. lia. }
  assert (H2 : Rabs (R32 (b32_mult mode_NE x x) - R32 x * R32 x)
               <= bpow radix2 (-24) * bpow radix2 (2 * k)).
  { rewrite Vxx. apply tf_rel_err; [apply bpow_le; lia|exact Hsq]. }
  assert (H3 : Rabs ((R32 (b32_mult mode_NE x x) - R32 x * R32 x) / INR (S n0))
               <= bpow radix2 (-24) * bpow radix2 (2 * k)).
  { apply tf_div_abs_le; [exact HNp|].
    assert (Hc : 0 < bpow radix2 (-24) * bpow radix2 (2 * k))
      by (apply Rmult_lt_0_compat; apply bpow_gt_0).
    set (c := bpow radix2 (-24) * bpow radix2 (2 * k)) in *. nra. }
  set (xx := R32 (b32_mult mode_NE x x)) in *.
  set (q := rnd32 (rnd32 (rnd32 (R32 msq * INR n0) + xx) / INR (S n0))) in *.
  replace (q - (R32 msq * INR n0 + R32 x * R32 x) / INR (S n0))
    with ((q - (R32 msq * INR n0 + xx) / INR (S n0)) + (xx - R32 x * R32 x) / INR (S n0))
    by (field; lra).
  rewrite Eu in *. eapply Rle_trans; [apply Rabs_triang|]. lra.
Qed.

(* ------------------------------------------------------------------ (4) the bounds are kept *)
Theorem trk32_update_range : forall (k : Z) (n0 : nat) (mean msq x : binary32),
  (Z.of_nat n0 < 2 ^ 24)%Z -> (-74 <= k <= 51)%Z ->
  fin32 mean = true -> fin32 msq = true -> fin32 x = true ->
  Rabs (R32 mean) <= bpow radix2 k -> 0 <= R32 msq <= bpow radix2 (2 * k) ->
  Rabs (R32 x) <= bpow radix2 k ->
  let '(n, mean', msq') := trk32_step (n0, mean, msq) x in
  n = S n0 /\ fin32 mean' = true /\ fin32 msq' = true /\
  Rabs (R32 mean') <= bpow radix2 k /\ 0 <= R32 msq' <= bpow radix2 (2 * k).
Proof.
  intros k n0 mean msq x Hn Hk Fm Fq Fx Hm Hq Hx. rewrite trk32_step_unfold.
  assert (HN : (Z.of_nat (S n0) <= 2 ^ 24)%Z) by lia.
  destruct (upd32_spec n0 k mean x HN ltac:(lia) Fm Fx Hm Hx) as [Vm' Fm'].
  destruct (sq32_spec k x ltac:(lia) Fx Hx) as (Vxx & Fxx & Pxx & Bxx).
  specialize (Bxx ltac:(lia)).
  split; [reflexivity|]. split; [exact Fm'|].
  assert (Rm' : Rabs (R32 (upd32 n0 mean x)) <= bpow radix2 k).
  { rewrite Vm'. unfold upd_rnd. apply ur_q; [exact HN|lia|exact Hm|exact Hx]. }
  destruct (Nat.eqb (S n0) 1).
  - split; [exact Fxx|]. split; [exact Rm'|]. split; [exact Pxx|exact Bxx].
  - assert (Hq' : Rabs (R32 msq) <= bpow radix2 (2 * k)) by (rewrite Rabs_pos_eq; lra).
    assert (Hxx : Rabs (R32 (b32_mult mode_NE x x)) <= bpow radix2 (2 * k))
      by (rewrite Rabs_pos_eq by exact Pxx; exact Bxx).
    destruct (upd32_spec n0 (2 * k) msq _ HN ltac:(lia) Fq Fxx Hq' Hxx) as [Vq' Fq'].
    split; [exact Fq'|]. split; [exact Rm'|]. rewrite Vq'. unfold upd_rnd. split.
    + apply ur_nonneg; [apply Hq|exact Pxx].
    + eapply Rle_trans; [apply Rle_abs|]. apply ur_q; [exact HN|lia|exact Hq'|exact Hxx].
Qed.

(* along a whole history: fewer than 2^24 finite states of magnitude at most 2^k *)
Definition trk32_ok (k : Z) (st : nat * binary32 * binary32) : Prop :=
  let '(n, mean, msq) := st in
  fin32 mean = true /\ fin32 msq = true /\
  Rabs (R32 mean) <= bpow radix2 k /\ 0 <= R32 msq <= bpow radix2 (2 * k).

Lemma trk32_run_range_from : forall (k : Z) (xs : list binary32) (st : nat * binary32 * binary32),
  (-74 <= k <= 51)%Z ->
  (Z.of_nat (fst (fst st) + length xs) <= 2 ^ 24)%Z ->
  Forall (fun x => fin32 x = true /\ Rabs (R32 x) <= bpow radix2 k) xs ->
  trk32_ok k st ->
  fst (fst (fold_left trk32_step xs st)) = (fst (fst st) + length xs)%nat /\
  trk32_ok k (fold_left trk32_step xs st).
Proof.
  intros k xs. induction xs as [|x xs IH]; intros [[n0 mean] msq] Hk Hlen Hxs Hst.
  - cbn [fold_left length fst]. split; [lia|exact Hst].
  - cbn [fold_left]. cbn [fst length] in Hlen.
    inversion Hxs as [|x' xs' [Fx Hx] Hxs']; subst.
    destruct Hst as (Fm & Fq & Hm & Hq).
    pose proof (trk32_update_range k n0 mean msq x ltac:(lia) Hk Fm Fq Fx Hm Hq Hx) as H.
    destruct (trk32_step (n0, mean, msq) x) as [[n1 mean1] msq1].
    destruct H as (En & Fm1 & Fq1 & Hm1 & Hq1). subst n1.
    destruct (IH (S n0, mean1, msq1) Hk) as [E1 E2].
    + cbn [fst]. lia.
    + exact Hxs'.
    + cbn [trk32_ok]. repeat split; try assumption; apply Hq1.
    + cbn [fst] in *. split; [rewrite E1; cbn [length]; lia|exact E2].
Qed.

Theorem trk32_run_range : forall (k : Z) (xs : list binary32),
  (-74 <= k <= 51)%Z -> (Z.of_nat (length xs) <= 2 ^ 24)%Z ->
  Forall (fun x => fin32 x = true /\ Rabs (R32 x) <= bpow radix2 k) xs ->
  let '(n, mean, msq) := fold_left trk32_step xs (O, f32_zero, f32_zero) in
  n = length xs /\ fin32 mean = true /\ fin32 msq = true /\
  Rabs (R32 mean) <= bpow radix2 k /\ 0 <= R32 msq <= bpow radix2 (2 * k).
Proof.
  intros k xs Hk Hlen Hxs.
  destruct (trk32_run_range_from k xs (O, f32_zero, f32_zero) Hk) as [E H].
  - cbn [fst]. exact Hlen.
  - exact Hxs.
  - cbn [trk32_ok]. rewrite f32_zero_spec. cbn [is_finite B2R]. rewrite Rabs_R0.
    pose proof (bpow_ge_0 radix2 k). pose proof (bpow_ge_0 radix2 (2 * k)).
    repeat split; try reflexivity; lra.
  - destruct (fold_left trk32_step xs (O, f32_zero, f32_zero)) as [[n mean] msq].
    cbn [fst] in E. cbn [trk32_ok] in H. destruct H as (F1 & F2 & H1 & H2).
    repeat split; try assumption; apply H2.
Qed.

(* ------------------------------------------------------------------ (5) accumulated error of the mean *)
Lemma trk_step_mean_R : forall (t : trk numR) (x : R),
  t_n numR (trk_step numR t x) = S (t_n numR t) /\
  t_mean numR (trk_step numR t x)
  = (t_mean numR t * INR (t_n numR t) + x) / INR (S (t_n numR t)).
Proof.
  intros t x. unfold trk_step. cbn [t_n t_mean]. split; [reflexivity|].
  realops. rewrite !ofN_R.
  replace (S (t_n numR t) - 1)%nat with (t_n numR t) by lia. reflexivity.
Qed.

Lemma trk32_run_mean_error_from : forall (k : Z) (xs : list binary32)
    (st : nat * binary32 * binary32) (t : trk numR),
  (-74 <= k <= 51)%Z ->
  (Z.of_nat (fst (fst st) + length xs) <= 2 ^ 24)%Z ->
  Forall (fun x => fin32 x = true /\ Rabs (R32 x) <= bpow radix2 k) xs ->
  trk32_ok k st -> t_n numR t = fst (fst st) ->
  Rabs (R32 (snd (fst st)) - t_mean numR t) * INR (fst (fst st))
    <= 3 * bpow radix2 (k - 24) * (INR (fst (fst st)) * (INR (fst (fst st)) + 1) / 2) ->
  let st' := fold_left trk32_step xs st in
  let t' := fold_left (trk_step numR) (map R32 xs) t in
  Rabs (R32 (snd (fst st')) - t_mean numR t') * INR (fst (fst st'))
    <= 3 * bpow radix2 (k - 24) * (INR (fst (fst st')) * (INR (fst (fst st')) + 1) / 2).
Proof.
  intros k xs. induction xs as [|x xs IH]; intros [[n0 mean] msq] t Hk Hlen Hxs Hst Hn HD.
  - cbn [fold_left map]. exact HD.
  - cbn [fold_left map]. cbn [fst snd length] in *.
    inversion Hxs as [|x' xs' [Fx Hx] Hxs']; subst x' xs'.
    destruct Hst as (Fm & Fq & Hm & Hq).
    pose proof (trk32_update_range k n0 mean msq x ltac:(lia) Hk Fm Fq Fx Hm Hq Hx) as H1.
    pose proof (trk32_update_error_mean k n0 mean msq x ltac:(lia) ltac:(lia) Fm Fx Hm Hx) as H2.
    destruct (trk32_step (n0, mean, msq) x) as [[n1 mean1] msq1].
    destruct H1 as (En & Fm1 & Fq1 & Hm1 & Hq1). destruct H2 as [_ He]. subst n1.
    destruct (trk_step_mean_R t (R32 x)) as [En1 Em1]. rewrite Hn in En1, Em1.
    apply IH; cbn [fst snd].
    + exact Hk.
    + lia.
    + exact Hxs'.
    + cbn [trk32_ok]. repeat split; try assumption; apply Hq1.
    + exact En1.
    + rewrite Em1.
      pose proof (tf_N_pos n0) as HN. pose proof (pos_INR n0) as Hn0.
      set (C := 3 * bpow radix2 (k - 24)) in *.
      set (tm := t_mean numR t) in *. clearbody tm. change (T numR) with R in tm.
      set (N := INR (S n0)) in *.
      set (dl := R32 mean1 - (R32 mean * INR n0 + R32 x) / N) in *.
      replace (R32 mean1 - (tm * INR n0 + R32 x) / N)
        with (dl + (R32 mean - tm) * INR n0 / N) by (unfold dl; field; lra).
      rewrite <- (Rabs_pos_eq N) at 2 by lra. rewrite <- Rabs_mult.
      replace ((dl + (R32 mean - tm) * INR n0 / N) * N)
        with (dl * N + (R32 mean - tm) * INR n0) by (field; lra).
      eapply Rle_trans; [apply Rabs_triang|].
      rewrite !Rabs_mult, (Rabs_pos_eq N), (Rabs_pos_eq (INR n0)) by lra.
      assert (EN : N = INR n0 + 1) by (unfold N; apply S_INR).
      assert (H3 : Rabs dl * N <= C * N) by (apply Rmult_le_compat_r; lra).
      rewrite EN in *. nra.
Qed.

Theorem trk32_run_mean_error : forall (k : Z) (xs : list binary32),
  (-74 <= k <= 51)%Z -> (Z.of_nat (length xs) <= 2 ^ 24)%Z ->
  Forall (fun x => fin32 x = true /\ Rabs (R32 x) <= bpow radix2 k) xs ->
  let '(n, mean, msq) := fold_left trk32_step xs (O, f32_zero, f32_zero) in
  Rabs (R32 mean - t_mean numR (trk_run numR (map R32 xs)))
    <= 3 * bpow radix2 (k - 24) * (INR (length xs) + 1) / 2.
Proof.
  intros k xs Hk Hlen Hxs.
  pose proof (bpow_gt_0 radix2 (k - 24)) as Hu.
  destruct (Nat.eq_dec (length xs) 0) as [Enil|Hne].
  { destruct xs; [|discriminate Enil].
    cbn [fold_left map length INR]. unfold trk_run. cbn [fold_left trk0 t_mean].
    rewrite f32_zero_spec. cbn [B2R]. realops. rewrite Rminus_0_r, Rabs_R0. lra. }
  assert (HL : 0 < INR (length xs)).
  { apply lt_0_INR. lia. }
  pose proof (trk32_run_range k xs Hk Hlen Hxs) as Hr.
  pose proof (trk32_run_mean_error_from k xs (O, f32_zero, f32_zero) (trk0 numR) Hk) as He.
  cbn [fst snd] in He. specialize (He Hlen Hxs).
  assert (Hok : trk32_ok k (O, f32_zero, f32_zero)).
  { cbn [trk32_ok]. rewrite f32_zero_spec. cbn [is_finite B2R]. rewrite Rabs_R0.
    pose proof (bpow_ge_0 radix2 k). pose proof (bpow_ge_0 radix2 (2 * k)).
    repeat split; try reflexivity; lra. }
  specialize (He Hok eq_refl). cbn [INR] in He.
  assert (H0 : Rabs (R32 f32_zero - t_mean numR (trk0 numR)) * 0
               <= 3 * bpow radix2 (k - 24) * (0 * (0 + 1) / 2)) by lra.
  specialize (He H0). cbv zeta in He. fold (trk_run numR (map R32 xs)) in He.
  destruct (fold_left trk32_step xs (O, f32_zero, f32_zero)) as [[n mean] msq].
  cbn [fst snd] in He. destruct Hr as (En & _). subst n.
  set (D := Rabs (R32 mean - t_mean numR (trk_run numR (map R32 xs)))) in *.
  set (L := INR (length xs)) in *.
  apply Rmult_le_reg_r with L; [exact HL|]. lra.
Qed.
