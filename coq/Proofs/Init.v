From MiniMcmc Require Import Base.Fp Base.Util Model.Init.

Section InitProofs.
  Context {A D : Type}.
  Variable conv : D -> A.
  Variable dflt : D.

  Lemma init_rows draws n d : length (init_model conv dflt draws n d) = n.
  Proof. unfold init_model. rewrite map_length, seq_length. reflexivity. Qed.

  Lemma init_cols draws n d row : In row (init_model conv dflt draws n d) -> length row = d.
  Proof.
    unfold init_model. intros H. apply in_map_iff in H. destruct H as [r [<- _]].
    rewrite map_length, seq_length. reflexivity.
  Qed.

  Lemma init_entry draws n d r c da : r < n -> c < d ->
    nth c (nth r (init_model conv dflt draws n d) []) da = conv (nth (r * d + c) draws dflt).
  Proof.
    intros Hr Hc. unfold init_model.
    rewrite (nth_map_seq (fun r0 => map (fun c0 => conv (nth (r0 * d + c0) draws dflt)) (seq 0 d)) n r []) by assumption.
    rewrite (nth_map_seq (fun c0 => conv (nth (r * d + c0) draws dflt)) d c da) by assumption.
    reflexivity.
  Qed.

  Lemma firstn_seq_le k n : k <= n -> firstn k (seq 0 n) = seq 0 k.
  Proof.
    intros H. replace n with (k + (n - k)) by lia. rewrite seq_app.
    rewrite firstn_app, seq_length, Nat.sub_diag. simpl.
    rewrite app_nil_r. rewrite <- (seq_length k 0) at 1. apply firstn_all.
  Qed.

  (* the first rows of a larger request equal a smaller request (same d, same draws) *)
  Lemma init_prefix draws n n' d : n <= n' ->
    firstn n (init_model conv dflt draws n' d) = init_model conv dflt draws n d.
  Proof.
    intros H. unfold init_model. rewrite firstn_map, firstn_seq_le by assumption. reflexivity.
  Qed.

  (* only the first n*d draws are consumed *)
  Lemma init_uses_prefix draws draws' n d :
    (forall k, k < n * d -> nth k draws dflt = nth k draws' dflt) ->
    init_model conv dflt draws n d = init_model conv dflt draws' n d.
  Proof.
    intros H. unfold init_model. apply map_ext_in. intros r Hr. apply in_seq in Hr.
    apply map_ext_in. intros c Hc. apply in_seq in Hc. f_equal. apply H. nia.
  Qed.
End InitProofs.
