#!/usr/bin/env python3
"""seedstore.py <Cxx> <mK> "<caught by: ...>" "<note>"  — copies a confirmed seeded change from /tmp/mut_Cxx/_mutation/mK to /verif/seeded/Cxx-mK/"""
import json, os, shutil, sys
cid, m, caught, note = sys.argv[1:5]
src = "%s/_mutation/%s" % (os.environ.get("MUT_ROOT", "/tmp/mut_" + cid), m)
dst = "/verif/seeded/%s-%s" % (cid, os.environ.get("MUT_NAME", m))
os.makedirs(dst, exist_ok=True)
shutil.copy(src + "/patch.diff", dst + "/patch.diff")
shutil.copy(src + "/demo.rs", dst + "/demo.rs")
meta = json.load(open(src + "/meta.json"))
out = {"property": cid, "summary": meta.get("summary"), "needs_to_manifest": meta.get("needs"), "files": meta.get("files"),
       "author": "independent sub-agent given only the property text and a scratch worktree",
       "confirmed_by_me": ("in the scratch worktree: demo.rs (copied to tests/) passes on the unchanged code and fails with patch.diff applied; "
                           "`cargo test --offline --lib --tests` (45 tests) passes with the patch; then `git -C /repo apply patch.diff`, "
                           "`bin/vcheck <id>`, `git -C /repo checkout -- .`"),
       "caught_by": caught, "note": note, "agent_verified": meta.get("verified")}
json.dump(out, open(dst + "/meta.json", "w"), indent=1)
print("stored", dst)
