(* C06 — long-run averages converge to the target's expectations.
   What a theorem can carry (see DESIGN.md C06): the target is stationary for each kernel, the
   integrator is reversible, the NUTS selection rule is Algorithm 6's.  These are restatements of
   theorems proved for C01, C02, C03, C05; the convergence clause itself is statistical and is
   checked by calibrated z-scores (the variates' laws and the ergodic theorem are assumed). *)
From MiniMcmc Require Import Base.Fp Model.MH Proofs.MH Model.HMC Proofs.HMC Model.NUTS Proofs.NUTS.
From Coq Require Import Reals.
Open Scope R_scope.

Section C06_mh.
  Context {St : Type}.
  Variable eqb : St -> St -> bool.
  Hypothesis eqb_spec : forall x y, eqb x y = true <-> x = y.
  Variable states : list St.
  Variable pi : St -> R.
  Variable q : St -> St -> R.
  Hypothesis pi_pos : forall x, 0 < pi x.
  Hypothesis q_nonneg : forall x y, 0 <= q x y.

  (* the target is stationary for the MH kernel on every finite state space, asymmetric proposals included *)
  Theorem C06_mh_stationary : forall y, NoDup states -> In y states ->
    sumR (fun x => pi x * K eqb states pi q x y) states = pi y.
  Proof. exact (stationary eqb eqb_spec states pi q pi_pos q_nonneg). Qed.
End C06_mh.

Section C06_hmc.
  Variable grad : list R -> list R.
  Variable eps : R.
  Hypothesis grad_length : forall x, length (grad x) = length x.

  (* L leapfrog steps are exactly time-reversible for every step size *)
  Theorem C06_hmc_reversible : forall L x p, length p = length x ->
    leapfrog numR grad eps L (flip numR (leapfrog numR grad eps L (x, p))) = flip numR (x, p).
  Proof. exact (leapfrog_reversible grad eps grad_length). Qed.
End C06_hmc.

(* ---- leapfrog = kick . drift . kick: each factor is a shear with an explicit inverse (any dimension), and in
   dimension one the composed map has Jacobian determinant 1 (volume preservation; the multivariate change of
   variables is not available in the installed libraries and is NOT proved for dimension > 1) ---- *)
From MiniMcmc Require Import Proofs.Shear.
From Coquelicot Require Import Coquelicot.

Section C06_shear.
  Variable grad : list R -> list R.
  Hypothesis grad_length : forall x, length (grad x) = length x.

  Theorem C06_leap_shear : forall (eps : R) z,
    leap1 numR grad eps z = kickv grad (half_eps numR eps) (driftv eps (kickv grad (half_eps numR eps) z)).
  Proof. exact (leap1_decomp grad). Qed.

  (* the step with -eps is the inverse map: leapfrog is a bijection of phase space *)
  Theorem C06_leap_bijective : forall (eps : R) x p, length p = length x ->
    leap1 numR grad (- eps) (leap1 numR grad eps (x, p)) = (x, p).
  Proof. exact (leap1_inverse grad grad_length). Qed.
End C06_shear.

Theorem C06_leap_volume_1d : forall (g : R -> R) (eps x p : R), det4 (leap_1d_jac g eps x p) = 1.
Proof. exact leap_1d_jacobian_det. Qed.

Theorem C06_leap_jacobian_1d : forall (g : R -> R) (eps x p : R),
  ex_derive g x -> ex_derive g (x + eps * (p + eps * (1 / 2) * g x)) ->
  let '(ja, jb, jc, jd) := leap_1d_jac g eps x p in
  is_derive (fun x0 => fst (leap_1d g eps (x0, p))) x ja /\
  is_derive (fun p2 => fst (leap_1d g eps (x, p2))) p jb /\
  is_derive (fun x0 => snd (leap_1d g eps (x0, p))) x jc /\
  is_derive (fun p2 => snd (leap_1d g eps (x, p2))) p jd.
Proof. exact leap_1d_partials. Qed.

Print Assumptions C06_mh_stationary.
Print Assumptions C06_hmc_reversible.
Print Assumptions C06_leap_shear.
Print Assumptions C06_leap_bijective.
Print Assumptions C06_leap_volume_1d.
Print Assumptions C06_leap_jacobian_1d.

(* ---- finite-state ergodicity: a kernel with a uniform minorisation P x y >= delta (Doeblin) contracts the l1
   distance between laws, so the n-step law converges geometrically to the stationary law; the Metropolis
   kernel on a deterministic involutive proposal (HMC's shape: L leapfrog steps then a momentum flip) is
   reversible, stochastic and leaves the weights stationary; and the HMC proposal is such an involution.
   Finite state spaces only: the continuous-state ergodic theorem is NOT proved. ---- *)
From MiniMcmc Require Import Model.Ergodic Proofs.Ergodic.
From Coq Require Import List.
Import ListNotations.

Section C06_doeblin.
  Context {St : Type}.
  Variable states : list St.
  Variable P : St -> St -> R.
  Hypothesis P_row : forall x, In x states -> sumR (P x) states = 1.

  (* a stochastic kernel preserves total mass *)
  Theorem C06_push_mass : forall mu : St -> R, sumR (push states P mu) states = sumR mu states.
  Proof. exact (push_mass states P P_row). Qed.

  Variable delta : R.
  Hypothesis P_minor : forall x y, In x states -> In y states -> delta <= P x y.

  (* one step contracts the l1 distance of two mass functions of equal mass by 1 - N*delta *)
  Theorem C06_doeblin_contraction : forall mu nu : St -> R, sumR mu states = sumR nu states ->
    l1 states (push states P mu) (push states P nu) <= (1 - INR (length states) * delta) * l1 states mu nu.
  Proof. exact (doeblin_contraction states P P_row delta P_minor). Qed.

  Variable pi : St -> R.
  Hypothesis pi_stat : forall y, In y states -> push states P pi y = pi y.

  (* geometric convergence of the n-step law to the stationary law *)
  Theorem C06_doeblin_geometric : forall mu : St -> R, sumR mu states = sumR pi states ->
    forall n, l1 states (pushn states P n mu) pi <= (1 - INR (length states) * delta) ^ n * l1 states mu pi.
  Proof. exact (doeblin_geometric states P P_row delta P_minor pi pi_stat). Qed.

  (* with delta > 0 the distance falls below every eps *)
  Theorem C06_doeblin_limit : forall mu : St -> R, 0 < delta -> states <> [] ->
    sumR mu states = sumR pi states ->
    forall eps, 0 < eps -> exists n0, forall n, (n0 <= n)%nat -> l1 states (pushn states P n mu) pi < eps.
  Proof. exact (doeblin_limit states P P_row delta P_minor pi pi_stat). Qed.
End C06_doeblin.

Section C06_involutive.
  Context {St : Type}.
  Variable eqb : St -> St -> bool.
  Hypothesis eqb_spec : forall x y, eqb x y = true <-> x = y.
  Variable w : St -> R.
  Variable F : St -> St.
  Hypothesis w_pos : forall x, 0 < w x.
  Hypothesis F_inv : forall x, F (F x) = x.

  (* Metropolis on an involution is reversible with respect to the weights *)
  Theorem C06_involutive_detailed_balance : forall x y,
    w x * Kinv eqb w F x y = w y * Kinv eqb w F y x.
  Proof. exact (involutive_detailed_balance eqb eqb_spec w F w_pos F_inv). Qed.

  Variable states : list St.
  Hypothesis states_nodup : NoDup states.
  Hypothesis F_closed : forall x, In x states -> In (F x) states.

  Theorem C06_involutive_row_sum : forall x, In x states -> sumR (Kinv eqb w F x) states = 1.
  Proof. exact (involutive_row_sum eqb eqb_spec w F states states_nodup F_closed). Qed.

  Theorem C06_involutive_stationary : forall y, In y states ->
    sumR (fun x => w x * Kinv eqb w F x y) states = w y.
  Proof. exact (involutive_stationary eqb eqb_spec w F w_pos F_inv states states_nodup F_closed). Qed.
End C06_involutive.

Section C06_hmc_involution.
  Variable grad : list R -> list R.
  Variable eps : R.
  Variable L : nat.
  Hypothesis grad_length : forall x, length (grad x) = length x.

  (* the HMC proposal z |-> flip (leapfrog^L z) is an involution on phase points with matching lengths,
     and maps such points to such points *)
  Theorem C06_hmc_proposal_involution : forall x p : list R, length p = length x ->
    flip numR (leapfrog numR grad eps L (flip numR (leapfrog numR grad eps L (x, p)))) = (x, p).
  Proof. exact (hmc_proposal_involution grad eps L grad_length). Qed.

  Theorem C06_hmc_proposal_length : forall x p : list R, length p = length x ->
    length (snd (flip numR (leapfrog numR grad eps L (x, p))))
    = length (fst (flip numR (leapfrog numR grad eps L (x, p)))) /\
    length (fst (flip numR (leapfrog numR grad eps L (x, p)))) = length x.
  Proof. exact (hmc_proposal_length grad eps L grad_length). Qed.
End C06_hmc_involution.

(* non-vacuity: the two-state chain ex2_P (entries 3/4 1/4 / 1/2 1/2, all >= 1/4) with stationary law
   ex2_pi = (2/3, 1/3) meets every hypothesis above; any initial law halves its l1 distance each step *)
Theorem C06_doeblin_example : forall mu : bool -> R, mu true + mu false = 1 ->
  forall n, l1 [true; false] (pushn [true; false] ex2_P n mu) ex2_pi
            <= (1 / 2) ^ n * l1 [true; false] mu ex2_pi.
Proof. exact doeblin_example. Qed.

Print Assumptions C06_push_mass.
Print Assumptions C06_doeblin_contraction.
Print Assumptions C06_doeblin_geometric.
Print Assumptions C06_doeblin_limit.
Print Assumptions C06_involutive_detailed_balance.
Print Assumptions C06_involutive_row_sum.
Print Assumptions C06_involutive_stationary.
Print Assumptions C06_hmc_proposal_involution.
Print Assumptions C06_hmc_proposal_length.
Print Assumptions C06_doeblin_example.

(* ---- the two together for the Metropolis-Hastings kernel of C01: on a finite state space where every transition
   probability is at least delta, the law of the chain after n steps is within (1 - N delta)^n of the target in l1,
   whatever the initial law (rows sum to one: C01_kernel_stochastic; pi stationary: C01_stationary) ---- *)
Section C06_mh_converges.
  Context {St : Type}.
  Variable eqb : St -> St -> bool.
  Hypothesis eqb_spec : forall x y, eqb x y = true <-> x = y.
  Variable states : list St.
  Variable pi : St -> R.
  Variable q : St -> St -> R.
  Hypothesis pi_pos : forall x, 0 < pi x.
  Hypothesis q_nonneg : forall x y, 0 <= q x y.
  Hypothesis states_nodup : NoDup states.
  Variable delta : R.
  Hypothesis K_minor : forall x y, In x states -> In y states -> delta <= K eqb states pi q x y.

  Theorem C06_mh_converges : forall mu : St -> R, sumR mu states = sumR pi states ->
    forall n, l1 states (pushn states (K eqb states pi q) n mu) pi
              <= (1 - INR (length states) * delta) ^ n * l1 states mu pi.
  Proof.
    exact (doeblin_geometric states (K eqb states pi q)
             (fun x Hx => K_row_sum eqb eqb_spec states pi q x states_nodup Hx) delta K_minor pi
             (fun y Hy => stationary eqb eqb_spec states pi q pi_pos q_nonneg y states_nodup Hy)).
  Qed.
End C06_mh_converges.
Print Assumptions C06_mh_converges.
