(* Index model of the NUTS doubling process (Hoffman & Gelman, Algorithm 6, outer loop).
   Trajectory points are named by their index on the leapfrog line through the start point:
   the start has index 0, one leapfrog forward is +1, one backward is -1.  The doubling at depth
   j adds 2^j points on the right (direction true) or on the left (direction false).
   Definitions only; the lemmas are in Proofs/NUTSSym.v. *)
From Coq Require Import ZArith List Lia Bool.
Import ListNotations.
Local Open Scope Z_scope.

(* number of points added on the left / right by the doublings vs, the first of which has
   depth j0 *)
Fixpoint spanL (j0 : nat) (vs : list bool) : Z :=
  match vs with
  | [] => 0
  | v :: r => (if v then 0 else 2 ^ Z.of_nat j0) + spanL (S j0) r
  end.

Fixpoint spanR (j0 : nat) (vs : list bool) : Z :=
  match vs with
  | [] => 0
  | v :: r => (if v then 2 ^ Z.of_nat j0 else 0) + spanR (S j0) r
  end.

(* the index interval [lo, hi] covered after the doublings vs when starting at index t *)
Definition span_from (t : Z) (vs : list bool) : Z * Z := (t - spanL 0 vs, t + spanR 0 vs).

(* all 2^j direction sequences of length j *)
Fixpoint all_dirs (j : nat) : list (list bool) :=
  match j with
  | O => [[]]
  | S k => map (cons true) (all_dirs k) ++ map (cons false) (all_dirs k)
  end.

(* boolean equality of index intervals *)
Definition zz_eqb (a b : Z * Z) : bool := (fst a =? fst b) && (snd a =? snd b).

(* does the direction sequence vs, started at index t, build the interval B? *)
Definition builds (t : Z) (B : Z * Z) (vs : list bool) : bool := zz_eqb (span_from t vs) B.

(* the index instance of the leapfrog oracle of Model/NUTS.v *)
Definition ileap (v : bool) (z : Z) : Z := if v then z + 1 else z - 1.
