"""C07 — same seed, same output: bit-reproducible, thread-count and schedule independent."""
import json
import common as C

ID = "C07"
LEVEL = "other"
COQ_HEADER = "From MiniMcmc Require Import Model.Seeds."
RULE = ("samplers MH/Gibbs/HMC/NUTS (f32 and f64) x seeds {0,1,42,2^63,u64::MAX-k,random}: (a) two fresh constructions + run "
        "-> identical bytes; (b) the same under RAYON_NUM_THREADS in {1,2,5,16} (separate processes); (c) the same while 1..3 "
        "other samplers run concurrently in other threads; (d) run_progress twice -> identical bytes; (e) different seeds -> "
        "different bytes; (f) per-chain seeds / generator outputs read from public fields compared exactly with "
        "Model.Seeds / Base.Rng evaluated in Coq (ties the xoshiro256++/SplitMix64 model to rand). Non-trivial: >= 2 chains.")
EXPLANATION = ("Theorems: schedule independence of chains with private streams (any two schedules with equal per-chain step "
               "counts give the same result = each chain run in isolation), refutation for a shared stream, totality and "
               "injectivity of the wrapping seed derivations, injectivity of seed_from_u64. Observed: byte-identical output "
               "across constructions, thread-pool sizes and concurrent samplers. OS scheduling is sampled, not enumerated; "
               "rayon/thread behaviour is modelled (trusted base).")
TRUSTED = ["rayon par_iter_mut: each closure once, disjoint &mut chains", "std::thread::scope", "SmallRng = xoshiro256++ (model tied by (f))"]
ASSUMPTIONS = ["from_os_rng gives fresh entropy", "progress mode relation to run is C10's statement"]
MAXU = (1 << 64) - 1
KINDS = [("mh", "f64"), ("mh", "f32"), ("gibbs", "f64"), ("hmc", "f32"), ("hmc", "f64"), ("nuts", "f32"), ("nuts", "f64")]


def spec(kind, f, seed, nc=3, n=6, d=3, **kw):
    s = {"kind": kind, "f": f, "seed": str(seed), "n_chains": nc, "n": n, "d": d}
    s.update(kw)
    return s


def generate(rng, tier):
    seeds = [0, 1, 42, 1 << 63, MAXU, MAXU - 1, MAXU - rng.randint(2, 40), rng.getrandbits(64)]
    if tier == "thorough":
        seeds += [rng.getrandbits(64) for _ in range(30)] + [MAXU - k for k in range(2, 20)]
    cases = []
    # init_with_seed / init_det are pure functions of (n, d, seed): the same bytes under every thread-pool size, also for
    # requests large enough (>= 2^15, 2^16 entries) for a size-triggered parallel fill
    for f in ["f64", "f32"]:
        for (rows, cols) in [(512, 64), (256, 256), (33, 7)]:
            cases.append(dict(spec("init", f, rng.getrandbits(64), rows, cols, 0), op="threads", threads=[1, 2, 3, 16]))
    for kind, f in KINDS:
        for s in seeds:
            nc = rng.choice([2, 3, 5])
            cases.append(dict(spec(kind, f, s, nc), op="repro", reps=2))
        # (d) progress mode reproducible
        cases.append(dict(spec(kind, f, seeds[2], 3, 6, 2, progress=True), op="repro", reps=2))
        # (b) thread counts
        cases.append(dict(spec(kind, f, rng.getrandbits(64), 7, 8, 2), op="threads", threads=[1, 2, 5, 16]))
        if kind == "hmc":
            # a large batch (n_chains * dim >= 4096): size-triggered parallel paths must not depend on the pool either
            cases.append(dict(spec(kind, f, rng.getrandbits(64), 2100, 2, 1), op="threads", threads=[1, 3, 16]))
            # ... and above 2^14 momentum components, run next to another such sampler in the same process: a large-batch
            # path that falls back on a process-global generator is reproducible in isolation only
            big = spec(kind, f, rng.getrandbits(64), 8300, 2, 1)
            cases.append(dict(big, op="concurrent", others=[spec(kind, f, rng.getrandbits(64), 8300, 2, 1)]))
        # (c) concurrency
        others = [spec(k2, f2, rng.getrandbits(64), 3, 10, 2) for k2, f2 in rng.sample(KINDS, rng.randint(1, 3))]
        if rng.random() < 0.5:
            others.append(spec(kind, f, rng.getrandbits(64), 3, 10, 2))     # same kind concurrently
        cases.append(dict(spec(kind, f, rng.getrandbits(64), 4, 10, 2), op="concurrent", others=others))
        # (e) different seeds -> different output (not for Gibbs: the library's seed never reaches the
        # user's Conditional, whose randomness is its own; the property quantifies Gibbs over conditionals
        # that are deterministic given their state)
        a = rng.getrandbits(64)
        if kind != "gibbs":
            cases.append({"op": "diffseed", "a": dict(spec(kind, f, a), op="run"), "b": dict(spec(kind, f, a ^ 1), op="run")})
    # (e') extreme seeds must still be distinguished (saturating / clamped derivations collapse them)
    for kind, f in KINDS:
        if kind == "gibbs":
            continue
        for (a, b) in [(MAXU - 1, MAXU), (MAXU - 2, MAXU - 1), (MAXU, 0)]:
            nc = rng.choice([1, 3])
            cases.append({"op": "diffseed", "a": dict(spec(kind, f, a, nc), op="run"), "b": dict(spec(kind, f, b, nc), op="run")})
    # (f) seeds against the model
    for s in [0, 42, MAXU, MAXU - 3, 1 << 63, rng.getrandbits(64)]:
        cases.append({"op": "seeds", "kind": "mh", "f": "f64", "seed": str(s), "n_chains": 6, "n": 1, "d": 0, "k": 4})
    return cases


def run_impl(cases):
    """threads / diffseed cases expand to several harness invocations."""
    plain_idx = [i for i, c in enumerate(cases) if c["op"] in ("repro", "concurrent", "seeds")]
    outs = [None] * len(cases)
    res = C.run_harness("C07", [cases[i] for i in plain_idx])
    for i, r in zip(plain_idx, res):
        outs[i] = r
    thr = [i for i, c in enumerate(cases) if c["op"] == "threads"]
    for t in sorted({t for i in thr for t in cases[i]["threads"]}):
        sub = [i for i in thr if t in cases[i]["threads"]]
        r = C.run_harness("C07", [dict(cases[i], op="run") for i in sub], env={"RAYON_NUM_THREADS": str(t)})
        for i, o in zip(sub, r):
            outs[i] = outs[i] or {"by_threads": {}}
            outs[i]["by_threads"][str(t)] = o
    ds = [i for i, c in enumerate(cases) if c["op"] == "diffseed"]
    ra = C.run_harness("C07", [cases[i]["a"] for i in ds])
    rb = C.run_harness("C07", [cases[i]["b"] for i in ds])
    for i, a, b in zip(ds, ra, rb):
        outs[i] = {"a": a, "b": b}
    return outs


def coq_term(case, out):
    if case["op"] != "seeds":
        return None
    return "c07_eval %s %s %s ++ rng_uniform_eval %s" % (case["seed"], C.natlit(case["n_chains"]), C.natlit(case["k"]), case["seed"])


def seeds_impl_flat(case, out):
    n, k = case["n_chains"], case["k"]
    if "panic" in out["mh"] or "panic" in out["gibbs"]:
        return None
    flat = []
    for o in out["mh"]["acc_outputs"]:
        flat += o
    flat += out["gibbs"]["seeds"]
    for o in out["gibbs"]["outputs"]:
        flat += o
    return flat


def compare(case, out, model):
    if case["op"] != "seeds" or model is None:
        return None
    n, k = case["n_chains"], case["k"]
    f = seeds_impl_flat(case, out)
    if f is None:
        return "seed derivation panicked: %s" % json.dumps(out)[:300]
    model, uni, extra2 = model[:-7], model[-7:-2], model[-2:]
    if extra2 != [out["reference"][3], 1]:
        return "Base.Rng steps / prev_state: 4th output through `steps` %s (rand: %s), prev_state(next_state) back at the seed state: %s" % (extra2[0], out["reference"][3], extra2[1])
    if out["uniforms"] != uni:
        return ("Base.Rng uniform53 / uniform24 / inject_state disagree with rand's StandardUniform conversions or the harness's "
                "injection state: implementation %s, model %s" % (out["uniforms"], uni))
    m_mh = model[:n * k]
    m_gs = model[n * k:n * k + n]
    m_go = model[n * k + n:2 * n * k + n]
    ref = model[-k:]
    if f[:n * k] != m_mh:
        return "MH acceptance generators are not SmallRng::seed_from_u64(1+seed+i (wrapping))"
    if f[n * k:n * k + n] != m_gs:
        return "Gibbs chain seeds differ from seed+i (wrapping)"
    if f[n * k + n:] != m_go:
        return "Gibbs chain generators are not seeded with seed+i"
    if out["reference"] != ref:
        return "Base.Rng model of SmallRng::seed_from_u64 differs from rand's generator"
    return None


def digest(o):
    return o.get("digest") if isinstance(o, dict) and "panic" not in o else None


def oracle(case, out):
    op = case["op"]
    tag = "%s/%s seed=%s" % (case.get("kind"), case.get("f"), case.get("seed"))
    if op == "repro":
        ds = []
        for r in out["runs"]:
            if "panic" in r:
                return "%s: %s panicked: %s" % (tag, "run_progress" if case.get("progress") else "construction/run", r["panic"])
            ds.append(r["digest"])
        if len(set(ds)) != 1:
            return "%s%s: two constructions with the same seed returned different draws (%s vs %s)" % (
                tag, " (progress mode)" if case.get("progress") else "", ds[0], ds[1])
    elif op == "threads":
        ds = {t: digest(o) for t, o in out["by_threads"].items()}
        if None in ds.values():
            return "%s: run panicked under some thread count: %s" % (tag, out["by_threads"])
        if len(set(ds.values())) != 1:
            return "%s: output depends on RAYON_NUM_THREADS: %s" % (tag, ds)
    elif op == "concurrent":
        a, b = digest(out["solo"]), digest(out["concurrent"])
        if a is None or b is None:
            return "%s: run panicked (solo=%s concurrent=%s)" % (tag, out["solo"], out["concurrent"])
        if a != b:
            return "%s: output changes when %d other sampler(s) run concurrently in the process" % (tag, len(case["others"]))
    elif op == "diffseed":
        a, b = digest(out["a"]), digest(out["b"])
        if a is None or b is None:
            return "run panicked: %s" % json.dumps(out)[:300]
        if a == b:
            return "%s/%s: seeds %s and %s give identical output" % (case["a"]["kind"], case["a"]["f"], case["a"]["seed"], case["b"]["seed"])
    elif op == "seeds":
        for k in ("mh", "gibbs"):
            if "panic" in out[k]:
                return "%s seed derivation with seed %s panicked: %s" % (k, case["seed"], out[k]["panic"])
    return None


def finding_class(case, out, d):
    return None


def nontrivial(case, out):
    return case.get("n_chains", 2) >= 2


def extra(cases, outs, model):
    ops = {}
    for c in cases:
        ops[c["op"]] = ops.get(c["op"], 0) + 1
    return {"operations": ops}
