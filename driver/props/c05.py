"""C05 — Gibbs step refreshes every coordinate once, conditioning on the freshest state."""
import common as C

ID = "C05"
LEVEL = "proof"
DIGEST = True
COQ_HEADER = "From MiniMcmc Require Import Base.Util Model.Gibbs."
RULE = ("recording Conditional whose answer is an order- and snapshot-sensitive hash of (index, all of given, "
        "call counter); state types i64/usize/f32/f64/i32; d 1..64; GibbsMarkovChain::step directly (1..6 steps) "
        "and GibbsSampler::run (1..8 chains); call log (index, full given) and every state compared exactly with "
        "Model.Gibbs.sweep evaluated in Coq. Non-trivial: d >= 3 (so some call reads both an earlier-refreshed and a "
        "not-yet-refreshed coordinate).")
TRUSTED = ["rayon par_iter_mut (GibbsSampler::run)"]
ASSUMPTIONS = ["C05_invariant (distribution form) is a theorem about the model only; the tie is the call-log refinement"]


def generate(rng, tier):
    n_cases = 400 if tier == "quick" else 5000
    cases = []
    for d in [1, 2, 3, 64]:
        cases.append(mk_chain(rng, "i64", d, 2))
    # the chain's state is a public field: replaced between two steps by a vector of another (or the same) length
    for _ in range(12 if tier == "quick" else 100):
        d0, d1 = rng.randint(1, 12), rng.randint(1, 12)
        c = mk_chain(rng, rng.choice(["i64", "f64", "i32"]), d0, rng.randint(2, 5))
        c["replace"] = {"after": rng.randint(1, c["k"] - 1), "state": [rng.randint(0, 999) for _ in range(d1)]}
        cases.append(c)
    while len(cases) < n_cases:
        ty = rng.choice(["i64", "usize", "f32", "f64", "i32"])
        d = rng.choice([1, 2, 3, 4, 5, 8, 16, 33, 64]) if rng.random() < 0.4 else rng.randint(1, 64)
        if rng.random() < 0.6:
            cases.append(mk_chain(rng, ty, d, rng.randint(1, 6 if d <= 16 else 2)))
        else:
            if ty == "i32":
                ty = "i64"
            nc = rng.randint(1, 8)
            d = min(d, 24)
            n, dd = rng.randint(0, 4), rng.randint(0, 3)
            cases.append({"op": "sampler", "ty": ty, "salt": rng.randint(0, 60000),
                          "inits": [[rng.randint(0, 999) for _ in range(d)] for _ in range(nc)],
                          "n": n, "d": dd})
    return cases


def mk_chain(rng, ty, d, k):
    return {"op": "chain", "ty": ty, "salt": rng.randint(0, 60000),
            "init": [rng.randint(0, 999) for _ in range(d)], "k": k}


def coq_term(case, out):
    if case["op"] == "chain" and "replace" in case:
        j, d0 = case["replace"]["after"], len(case["init"])
        return "rec_sweeps %d %s %s ++ rec_sweeps_from %d %d %s %s" % (
            case["salt"], C.natlit(j), C.zlist(case["init"]), case["salt"], j * d0, C.natlit(case["k"] - j), C.zlist(case["replace"]["state"]))
    if case["op"] == "chain":
        return "rec_sweeps %d %s %s" % (case["salt"], C.natlit(case["k"]), C.zlist(case["init"]))
    k = case["n"] + case["d"]
    return " ++ ".join("rec_sweeps %d %s %s" % (case["salt"], C.natlit(k), C.zlist(i)) for i in case["inits"])


def flat_chain(calls, states, d):
    """calls: list of [i, given...] over all steps; states[t] = state after step t."""
    out = []
    for t, st in enumerate(states):
        for c in calls[t * d:(t + 1) * d]:
            out.extend(c)
        out.extend(st)
    return out


def impl_flat(case, out):
    if "panic" in out:
        return None
    if case["op"] == "chain" and "replace" in case:
        j, d0, d1, k = case["replace"]["after"], len(case["init"]), len(case["replace"]["state"]), case["k"]
        if len(out["calls"]) != d0 * j + d1 * (k - j):
            return None
        return flat_chain(out["calls"][:d0 * j], out["states"][:j], d0) + flat_chain(out["calls"][d0 * j:], out["states"][j:], d1)
    if case["op"] == "chain":
        d = len(case["init"])
        if len(out["calls"]) != d * case["k"]:
            return None
        return flat_chain(out["calls"], out["states"], d)
    flat = []
    n, dd = case["n"], case["d"]
    k = n + dd
    for ch, init in zip(out["chains"], case["inits"]):
        d = len(init)
        calls = ch["calls"]
        if len(calls) != d * k:
            return None
        states = []
        for t in range(k):
            if t >= dd:
                states.append(ch["rows"][t - dd])
            else:   # state after step t = `given` of the first call of step t+1 (or the final state)
                states.append(calls[(t + 1) * d][1:] if t + 1 < k else ch["final"])
        flat.extend(flat_chain(calls, states, d))
    return flat


def compare(case, out, model):
    if "panic" in out:
        return "implementation panicked: " + out["panic"]
    f = impl_flat(case, out)
    if f is None:
        return "number of conditional calls differs from dimension x steps"
    if f != model:
        return "call log / states differ from the model"
    return None


def pycond(salt, cnt, i, given):
    h = (salt + 7 * i + 13 * cnt) % 65521
    for x in given:
        h = (h * 31 + x) % 65521
    return h


def oracle_chain(salt, init, calls, states, k, cnt0=0):
    """Property text: every coordinate once (in a step), each call sees all earlier refreshes,
    answer written to that coordinate only."""
    d = len(init)
    if len(calls) != d * k:
        return "%d conditional calls in %d steps of a %d-dimensional chain" % (len(calls), k, d)
    cur = list(init)
    cnt = cnt0
    for t in range(k):
        step_calls = calls[t * d:(t + 1) * d]
        idxs = sorted(c[0] for c in step_calls)
        if idxs != list(range(d)):
            return "step %d asked for coordinates %s (each of 0..%d exactly once expected)" % (t, idxs, d - 1)
        for c in step_calls:
            i, given = c[0], c[1:]
            if given != cur:
                return "step %d, call for coordinate %d was given %s but the chain's freshest state is %s" % (t, i, given, cur)
            cur[i] = pycond(salt, cnt, i, given)
            cnt += 1
        if states[t] is not None and states[t] != cur:
            return "state after step %d is %s, but the answers written coordinate-wise give %s" % (t, states[t], cur)
    return None


def oracle(case, out):
    if "panic" in out:
        return "Gibbs step panicked: " + out["panic"]
    if case["op"] == "chain" and "replace" in case:
        j, d0, k = case["replace"]["after"], len(case["init"]), case["k"]
        r = oracle_chain(case["salt"], case["init"], out["calls"][:d0 * j], out["states"][:j], j)
        if r:
            return r
        r = oracle_chain(case["salt"], case["replace"]["state"], out["calls"][d0 * j:], out["states"][j:], k - j, cnt0=d0 * j)
        return ("after the state was replaced by a %d-dimensional one: " % len(case["replace"]["state"]) + r) if r else None
    if case["op"] == "chain":
        return oracle_chain(case["salt"], case["init"], out["calls"], out["states"], case["k"])
    n, dd = case["n"], case["d"]
    for ch, init in zip(out["chains"], case["inits"]):
        k = n + dd
        states = [ch["rows"][t - dd] if t >= dd else None for t in range(k)]
        r = oracle_chain(case["salt"], init, ch["calls"], states, k)
        if r:
            return r
    return None


def nontrivial(case, out):
    d = len(case["init"]) if case["op"] == "chain" else len(case["inits"][0])
    return d >= 3
