(* C04 — During the first n_discard transitions of a run the NUTS step size follows Nesterov dual
   averaging toward the requested acceptance statistic (gamma 0.05, t0 10, kappa 0.75, shrinkage
   point ln(10*eps0)), driven by each transition's acceptance statistic; after warm-up it equals
   the averaged iterate and never changes again.  The step size is positive and finite throughout.
   Model: Model/DualAvg.v (da_step = tail of NUTSChain::step, da_init = init_chain, da_run = one
   run(); find_loop / find_eps = find_reasonable_epsilon), generic over the number record TNum.
   All statements below are about the real-number instance tnumR (tadd = Rplus, tsub = Rminus,
   tmul = Rmult, tdiv = Rdiv, tofZ = IZR, texp = exp, tln = ln, tsqrt = sqrt), except
   C04_interval_sound* which relate the interval instance tnumI (Interval, 80 bits; the Coq-side
   evaluation of the correspondence check) to tnumR.
   `nd` = warm-up length (n_discard of the current run); `da_m` = number of adaptation updates
   so far (persists across runs); `a` = acceptance statistic alpha / n_alpha of the transition
   just performed.  m^(-kappa) is written exp (- kappa * ln m). *)
From MiniMcmc Require Import Model.DualAvg Proofs.DualAvg Model.FindEps Proofs.FindEps Proofs.FindEpsX.
From Coq Require Import Reals Qreals List.
From Interval Require Import Interval Xreal.
Open Scope R_scope.

Section C04.
  Variables delta gamma kappa : R.       (* target acceptance, 0.05, 0.75 *)
  Variable t0 : nat.                     (* 10 *)

  (* ---- (1) warm-up: one Nesterov dual-averaging update, m = S (da_m st) <= nd ---- *)
  Theorem C04_warmup_closed_form : forall (nd : nat) (st : dastate tnumR) (a : R),
    let m := S (da_m tnumR st) in
    (m <= nd)%nat ->
    let st' := da_step tnumR delta gamma kappa t0 nd st a in
    da_h_bar tnumR st'
      = (1 - 1 / INR (m + t0)) * da_h_bar tnumR st + 1 / INR (m + t0) * (delta - a) /\
    ln (da_eps tnumR st') = da_mu tnumR st - sqrt (INR m) / gamma * da_h_bar tnumR st' /\
    ln (da_eps_bar tnumR st')
      = (1 - exp (- kappa * ln (INR m))) * ln (da_eps_bar tnumR st)
        + exp (- kappa * ln (INR m)) * ln (da_eps tnumR st') /\
    da_m tnumR st' = m /\ da_mu tnumR st' = da_mu tnumR st.
  Proof. exact (da_warmup_closed_form delta gamma kappa t0). Qed.

  (* the same update without logarithms on the left (m^(-kappa) as Rpower) *)
  Theorem C04_warmup_exp_form : forall (nd : nat) (st : dastate tnumR) (a : R),
    let m := S (da_m tnumR st) in
    (m <= nd)%nat ->
    let st' := da_step tnumR delta gamma kappa t0 nd st a in
    da_eps tnumR st' = exp (da_mu tnumR st - sqrt (INR m) / gamma * da_h_bar tnumR st') /\
    da_eps_bar tnumR st'
      = exp ((1 - Rpower (INR m) (- kappa)) * ln (da_eps_bar tnumR st)
             + Rpower (INR m) (- kappa) * ln (da_eps tnumR st')).
  Proof. exact (da_warmup_exp_form delta gamma kappa t0). Qed.

  (* the averaged-error recursion is applied at every transition, warm-up or not *)
  Theorem C04_hbar_update : forall (nd : nat) (st : dastate tnumR) (a : R),
    da_h_bar tnumR (da_step tnumR delta gamma kappa t0 nd st a)
    = (1 - 1 / INR (S (da_m tnumR st) + t0)) * da_h_bar tnumR st
      + 1 / INR (S (da_m tnumR st) + t0) * (delta - a).
  Proof. exact (da_hbar_update delta gamma kappa t0). Qed.

  (* ---- (2) after warm-up: the step size is the averaged iterate and never changes again ---- *)
  Theorem C04_frozen_step : forall (nd : nat) (st : dastate tnumR) (a : R),
    (nd < S (da_m tnumR st))%nat ->
    let st' := da_step tnumR delta gamma kappa t0 nd st a in
    da_eps tnumR st' = da_eps_bar tnumR st /\ da_eps_bar tnumR st' = da_eps_bar tnumR st /\
    da_m tnumR st' = S (da_m tnumR st).
  Proof. exact (da_frozen_step delta gamma kappa t0). Qed.

  (* whatever the later acceptance statistics *)
  Theorem C04_frozen : forall (nd : nat) (accs : list R) (st : dastate tnumR),
    (nd <= da_m tnumR st)%nat ->
    let st' := fold_left (da_step tnumR delta gamma kappa t0 nd) accs st in
    da_eps_bar tnumR st' = da_eps_bar tnumR st /\
    (accs <> nil -> da_eps tnumR st' = da_eps_bar tnumR st) /\
    da_m tnumR st' = (da_m tnumR st + length accs)%nat.
  Proof. exact (da_frozen delta gamma kappa t0). Qed.

  (* the update counter after any sequence of transitions *)
  Theorem C04_counter : forall (nd : nat) (accs : list R) (st : dastate tnumR),
    da_m tnumR (fold_left (da_step tnumR delta gamma kappa t0 nd) accs st)
    = (da_m tnumR st + length accs)%nat.
  Proof. exact (fold_m delta gamma kappa t0). Qed.

  (* a later run on the state left by an earlier one: init_chain only recomputes mu *)
  Theorem C04_across_runs_init : forall st : dastate tnumR,
    let st0 := da_init tnumR st in
    da_m tnumR st0 = da_m tnumR st /\ da_eps tnumR st0 = da_eps tnumR st /\
    da_eps_bar tnumR st0 = da_eps_bar tnumR st /\ da_h_bar tnumR st0 = da_h_bar tnumR st /\
    da_mu tnumR st0 = ln (10 * da_eps tnumR st).
  Proof. exact da_init_keeps. Qed.

  (* ... if its warm-up length nd' does not exceed the persisted counter, nothing is adapted *)
  Theorem C04_across_runs_frozen : forall (nd' : nat) (st : dastate tnumR) (accs : list R),
    (nd' <= da_m tnumR st)%nat ->
    let st' := da_run tnumR delta gamma kappa t0 nd' st accs in
    da_eps_bar tnumR st' = da_eps_bar tnumR st /\
    (accs <> nil -> da_eps tnumR st' = da_eps_bar tnumR st) /\
    da_m tnumR st' = (da_m tnumR st + length accs)%nat.
  Proof. exact (da_run_no_adapt delta gamma kappa t0). Qed.

  (* ... otherwise its first transition is again a warm-up update, with mu = ln (10 * eps) *)
  Theorem C04_across_runs_warm : forall (nd' : nat) (st : dastate tnumR) (a : R) (accs : list R),
    (da_m tnumR st < nd')%nat ->
    let m := S (da_m tnumR st) in
    let st1 := da_step tnumR delta gamma kappa t0 nd' (da_init tnumR st) a in
    da_run tnumR delta gamma kappa t0 nd' st (a :: accs)
      = fold_left (da_step tnumR delta gamma kappa t0 nd') accs st1 /\
    da_h_bar tnumR st1
      = (1 - 1 / INR (m + t0)) * da_h_bar tnumR st + 1 / INR (m + t0) * (delta - a) /\
    ln (da_eps tnumR st1) = ln (10 * da_eps tnumR st) - sqrt (INR m) / gamma * da_h_bar tnumR st1 /\
    ln (da_eps_bar tnumR st1)
      = (1 - exp (- kappa * ln (INR m))) * ln (da_eps_bar tnumR st)
        + exp (- kappa * ln (INR m)) * ln (da_eps tnumR st1) /\
    da_m tnumR st1 = m /\ da_mu tnumR st1 = ln (10 * da_eps tnumR st).
  Proof. exact (da_run_first_warm delta gamma kappa t0). Qed.

  (* ---- (3) positivity, for every acceptance statistic and every warm-up length ---- *)
  Theorem C04_positive_step : forall (nd : nat) (st : dastate tnumR) (a : R),
    0 < da_eps_bar tnumR st ->
    0 < da_eps tnumR (da_step tnumR delta gamma kappa t0 nd st a) /\
    0 < da_eps_bar tnumR (da_step tnumR delta gamma kappa t0 nd st a).
  Proof. exact (da_positive_step delta gamma kappa t0). Qed.

  Theorem C04_positive : forall (nd : nat) (accs : list R) (st : dastate tnumR),
    0 < da_eps_bar tnumR st ->
    0 < da_eps_bar tnumR (fold_left (da_step tnumR delta gamma kappa t0 nd) accs st) /\
    (accs <> nil -> 0 < da_eps tnumR (fold_left (da_step tnumR delta gamma kappa t0 nd) accs st)).
  Proof. exact (da_positive delta gamma kappa t0). Qed.

  (* the chain is created with eps_bar = 1 *)
  Theorem C04_positive_from_one : forall (nd : nat) (accs : list R) (st : dastate tnumR),
    da_eps_bar tnumR st = 1 ->
    0 < da_eps_bar tnumR (fold_left (da_step tnumR delta gamma kappa t0 nd) accs st) /\
    (accs <> nil -> 0 < da_eps tnumR (fold_left (da_step tnumR delta gamma kappa t0 nd) accs st)).
  Proof. exact (da_positive_from_one delta gamma kappa t0). Qed.

  (* a whole run (init_chain, then any transitions, possibly none) keeps eps and eps_bar positive *)
  Theorem C04_positive_run : forall (nd : nat) (accs : list R) (st : dastate tnumR),
    0 < da_eps tnumR st -> 0 < da_eps_bar tnumR st ->
    let st' := da_run tnumR delta gamma kappa t0 nd st accs in
    0 < da_eps tnumR st' /\ 0 < da_eps_bar tnumR st'.
  Proof. exact (da_positive_run delta gamma kappa t0). Qed.

  (* ---- (4) finiteness: explicit bounds ---- *)
  (* the averaged error stays in [delta - 1, delta] when the statistics are in [0, 1] *)
  Theorem C04_hbar_bounds_step : forall (nd : nat) (st : dastate tnumR) (a : R),
    delta - 1 <= da_h_bar tnumR st <= delta -> 0 <= a <= 1 ->
    delta - 1 <= da_h_bar tnumR (da_step tnumR delta gamma kappa t0 nd st a) <= delta.
  Proof. exact (da_hbar_bounds_step delta gamma kappa t0). Qed.

  Theorem C04_hbar_bounds : forall (nd : nat) (accs : list R) (st : dastate tnumR),
    delta - 1 <= da_h_bar tnumR st <= delta -> (forall a, In a accs -> 0 <= a <= 1) ->
    delta - 1 <= da_h_bar tnumR (fold_left (da_step tnumR delta gamma kappa t0 nd) accs st) <= delta.
  Proof. exact (da_hbar_bounds delta gamma kappa t0). Qed.

  (* the chain is created with h_bar = 0 *)
  Theorem C04_hbar_bounds_from_zero : forall (nd : nat) (accs : list R) (st : dastate tnumR),
    0 <= delta <= 1 -> da_h_bar tnumR st = 0 -> (forall a, In a accs -> 0 <= a <= 1) ->
    delta - 1 <= da_h_bar tnumR (fold_left (da_step tnumR delta gamma kappa t0 nd) accs st) <= delta.
  Proof. exact (da_hbar_bounds_from_zero delta gamma kappa t0). Qed.

  (* init_chain does not touch h_bar, so the bounds carry over whole runs *)
  Theorem C04_hbar_bounds_run : forall (nd : nat) (accs : list R) (st : dastate tnumR),
    delta - 1 <= da_h_bar tnumR st <= delta -> (forall a, In a accs -> 0 <= a <= 1) ->
    delta - 1 <= da_h_bar tnumR (da_run tnumR delta gamma kappa t0 nd st accs) <= delta.
  Proof. exact (da_hbar_bounds_run delta gamma kappa t0). Qed.

  (* explicit finite positive bounds on the step size during warm-up *)
  Theorem C04_eps_bounds : forall (nd : nat) (st : dastate tnumR) (a : R),
    let m := S (da_m tnumR st) in
    delta - 1 <= da_h_bar tnumR st <= delta -> 0 <= a <= 1 -> 0 < gamma -> (m <= nd)%nat ->
    exp (da_mu tnumR st - sqrt (INR m) / gamma * delta)
      <= da_eps tnumR (da_step tnumR delta gamma kappa t0 nd st a)
      <= exp (da_mu tnumR st + sqrt (INR m) / gamma * (1 - delta)).
  Proof. exact (da_eps_bounds delta gamma kappa t0). Qed.
End C04.

(* ---- (5) find_reasonable_epsilon over an arbitrary log-acceptance oracle lap ---- *)
Section C04_find_eps.
  Variable lap : R -> R.

  (* the returned step size is the FIRST point eps * (2^a)^k of the geometric grid where the loop
     condition  -a ln 2 < a * lap(.)  fails; k is below the fuel *)
  Theorem C04_find_eps_post : forall (fuel : nat) (a eps e' : R),
    find_loop lap fuel a eps = Some e' ->
    exists k : nat, (k < fuel)%nat /\
      e' = eps * (Rpower 2 a) ^ k /\
      ~ (- a * ln 2 < a * lap e') /\
      (forall i : nat, (i < k)%nat -> - a * ln 2 < a * lap (eps * (Rpower 2 a) ^ i)).
  Proof. exact (find_loop_post lap). Qed.

  (* conversely, the first failing grid point is what the loop returns, given fuel > k *)
  Theorem C04_find_eps_complete : forall (k fuel : nat) (a eps : R),
    (k < fuel)%nat ->
    ~ (- a * ln 2 < a * lap (eps * (Rpower 2 a) ^ k)) ->
    (forall i : nat, (i < k)%nat -> - a * ln 2 < a * lap (eps * (Rpower 2 a) ^ i)) ->
    find_loop lap fuel a eps = Some (eps * (Rpower 2 a) ^ k).
  Proof. exact (find_loop_complete lap). Qed.

End C04_find_eps.

(* ---- (6) the interval evaluation (tnumI) encloses the real model (tnumR) ---- *)
(* if every interval argument contains the corresponding real argument then every component of
   the interval step contains the corresponding component of the real step (an interval whose
   conversion is Inan contains everything, by definition of `contains`) *)
Theorem C04_interval_sound :
  forall (deltai gammai kappai : I.type) (delta gamma kappa : R) (t0 nd : nat)
         (si : dastate tnumI) (sr : dastate tnumR) (ai : I.type) (a : R),
  contains (I.convert deltai) (Xreal delta) -> contains (I.convert gammai) (Xreal gamma) ->
  contains (I.convert kappai) (Xreal kappa) -> contains (I.convert ai) (Xreal a) ->
  da_m tnumI si = da_m tnumR sr /\
  contains (I.convert (da_eps tnumI si)) (Xreal (da_eps tnumR sr)) /\
  contains (I.convert (da_eps_bar tnumI si)) (Xreal (da_eps_bar tnumR sr)) /\
  contains (I.convert (da_h_bar tnumI si)) (Xreal (da_h_bar tnumR sr)) /\
  contains (I.convert (da_mu tnumI si)) (Xreal (da_mu tnumR sr)) ->
  let si' := da_step tnumI deltai gammai kappai t0 nd si ai in
  let sr' := da_step tnumR delta gamma kappa t0 nd sr a in
  da_m tnumI si' = da_m tnumR sr' /\
  contains (I.convert (da_eps tnumI si')) (Xreal (da_eps tnumR sr')) /\
  contains (I.convert (da_eps_bar tnumI si')) (Xreal (da_eps_bar tnumR sr')) /\
  contains (I.convert (da_h_bar tnumI si')) (Xreal (da_h_bar tnumR sr')) /\
  contains (I.convert (da_mu tnumI si')) (Xreal (da_mu tnumR sr')).
Proof. exact da_step_encl. Qed.

(* the same for init_chain (mu := ln (10 * eps)) *)
Theorem C04_interval_sound_init : forall (si : dastate tnumI) (sr : dastate tnumR),
  da_m tnumI si = da_m tnumR sr /\
  contains (I.convert (da_eps tnumI si)) (Xreal (da_eps tnumR sr)) /\
  contains (I.convert (da_eps_bar tnumI si)) (Xreal (da_eps_bar tnumR sr)) /\
  contains (I.convert (da_h_bar tnumI si)) (Xreal (da_h_bar tnumR sr)) /\
  contains (I.convert (da_mu tnumI si)) (Xreal (da_mu tnumR sr)) ->
  let si' := da_init tnumI si in
  let sr' := da_init tnumR sr in
  da_m tnumI si' = da_m tnumR sr' /\
  contains (I.convert (da_eps tnumI si')) (Xreal (da_eps tnumR sr')) /\
  contains (I.convert (da_eps_bar tnumI si')) (Xreal (da_eps_bar tnumR sr')) /\
  contains (I.convert (da_h_bar tnumI si')) (Xreal (da_h_bar tnumR sr')) /\
  contains (I.convert (da_mu tnumI si')) (Xreal (da_mu tnumR sr')).
Proof. exact da_init_encl. Qed.

(* and for a whole run over pairs (interval, real) of acceptance statistics *)
Theorem C04_interval_sound_run :
  forall (deltai gammai kappai : I.type) (delta gamma kappa : R) (t0 nd : nat)
         (accs : list (I.type * R)) (si : dastate tnumI) (sr : dastate tnumR),
  contains (I.convert deltai) (Xreal delta) -> contains (I.convert gammai) (Xreal gamma) ->
  contains (I.convert kappai) (Xreal kappa) ->
  (forall p, In p accs -> contains (I.convert (fst p)) (Xreal (snd p))) ->
  da_m tnumI si = da_m tnumR sr /\
  contains (I.convert (da_eps tnumI si)) (Xreal (da_eps tnumR sr)) /\
  contains (I.convert (da_eps_bar tnumI si)) (Xreal (da_eps_bar tnumR sr)) /\
  contains (I.convert (da_h_bar tnumI si)) (Xreal (da_h_bar tnumR sr)) /\
  contains (I.convert (da_mu tnumI si)) (Xreal (da_mu tnumR sr)) ->
  let si' := da_run tnumI deltai gammai kappai t0 nd si (map fst accs) in
  let sr' := da_run tnumR delta gamma kappa t0 nd sr (map snd accs) in
  da_m tnumI si' = da_m tnumR sr' /\
  contains (I.convert (da_eps tnumI si')) (Xreal (da_eps tnumR sr')) /\
  contains (I.convert (da_eps_bar tnumI si')) (Xreal (da_eps_bar tnumR sr')) /\
  contains (I.convert (da_h_bar tnumI si')) (Xreal (da_h_bar tnumR sr')) /\
  contains (I.convert (da_mu tnumI si')) (Xreal (da_mu tnumR sr')).
Proof. exact da_run_encl. Qed.

(* ---- (7) find_reasonable_epsilon as a whole, and its executable form (Model/FindEps.v) ---- *)

(* the generic executable version, instantiated at the reals with the constant ln(1/2), is the model *)
Theorem C04_find_eps_gen_is_model : forall (lap : R -> R) (fuel : nat),
  find_eps_gen numR lap (ln (1 / 2)) fuel = find_eps lap fuel.
Proof. exact find_eps_gen_is_model. Qed.

(* the direction is decided by lap 1 (the log acceptance probability of the step of size 1); the result
   is the FIRST point 1/2 * 2^(+-k), k >= 1, of the grid at which the test fails, the test "at k = 0"
   being the one on lap 1 (not on lap (1/2)); and it is 1/2 exactly when lap 1 = ln(1/2) *)
Theorem C04_find_eps_direction : forall (lap : R -> R) (fuel : nat) (e : R),
  find_eps lap fuel = Some e ->
  (ln (1 / 2) < lap 1 ->
     exists k : nat, (1 <= k <= fuel)%nat /\ e = 1 / 2 * 2 ^ k /\ ~ (ln (1 / 2) < lap e) /\
       forall i : nat, (1 <= i < k)%nat -> ln (1 / 2) < lap (1 / 2 * 2 ^ i))
  /\ (lap 1 < ln (1 / 2) ->
     exists k : nat, (1 <= k <= fuel)%nat /\ e = 1 / 2 * (/ 2) ^ k /\ ~ (lap e < ln (1 / 2)) /\
       forall i : nat, (1 <= i < k)%nat -> lap (1 / 2 * (/ 2) ^ i) < ln (1 / 2))
  /\ (lap 1 = ln (1 / 2) -> e = 1 / 2).
Proof. exact find_eps_direction. Qed.

(* soundness of the rational evaluation: if the executable version over Q (numQ, normalised rationals),
   run once with a rational lower bound and once with a rational upper bound of ln(1/2) in place of
   ln(1/2), returns the same value both times, then the real model returns that value
   (lapQ is the rational restriction of lapR) *)
Theorem C04_find_eps_bracket :
  forall (lapQ : Q -> Q) (lapR : R -> R) (lo hi : Q) (fuel : nat) (e : Q),
  (forall q : Q, lapR (Q2R q) = Q2R (lapQ q)) ->
  Q2R lo < ln (1 / 2) < Q2R hi ->
  find_eps_gen numQ lapQ lo fuel = Some e ->
  find_eps_gen numQ lapQ hi fuel = Some e ->
  find_eps lapR fuel = Some (Q2R e).
Proof. intros lapQ lapR lo hi fuel e Hlap Hb. exact (find_eps_bracket lapQ lapR lo hi Hlap Hb fuel e). Qed.

(* the two constants used by the evaluation do bracket ln(1/2) *)
Theorem C04_lnhalf_bounds : Q2R lnhalf_lo < ln (1 / 2) < Q2R lnhalf_hi.
Proof. exact lnhalf_bounds. Qed.

(* the log acceptance probability of one leapfrog step on the Gaussian-precision target commutes
   with the embedding of Q into R (no division other than by 2 occurs) *)
Theorem C04_lap_gauss_q2r : forall (A : list (list Q)) (x p : list Q) (q : Q),
  lap_gauss numR (map (map Q2R) A) (map Q2R x) (map Q2R p) (Q2R q)
  = Q2R (lap_gauss numQ A x p q).
Proof. exact q2r_lap_gauss. Qed.

(* hence the in-Coq evaluation is sound: when its two halves (lower / upper bound of ln(1/2), fuel 40)
   print the same positive rational e, find_eps on the real Gaussian-precision oracle returns e *)
Theorem C04_find_eps_eval_sound : forall (A : list (list Q)) (x p : list Q) (e : Q),
  find_eps_eval A x p = qout e ++ qout e -> 0 < Q2R e ->
  find_eps (lap_gauss numR (map (map Q2R) A) (map Q2R x) (map Q2R p)) 40 = Some (Q2R e).
Proof. exact find_eps_eval_sound. Qed.

(* ---- non-vacuity ---- *)

(* the freshly created chain (m = 0, eps = 1/2, eps_bar = 1, h_bar = 0, mu = ln (10 * 1/2)) with
   delta = 4/5, gamma = 1/20, kappa = 3/4, t0 = 10, nd = 5 meets every hypothesis of (1), (3), (4);
   with a = 1/2 the first update gives h_bar = 3/110 *)
Example C04_hypotheses_satisfiable :
  let delta := 4 / 5 in let gamma := 1 / 20 in let kappa := 3 / 4 in
  let st := Build_dastate tnumR 0 (1 / 2) 1 0 (ln (10 * (1 / 2))) in
  (S (da_m tnumR st) <= 5)%nat /\ 0 < da_eps tnumR st /\ 0 < da_eps_bar tnumR st /\
  da_eps_bar tnumR st = 1 /\ da_h_bar tnumR st = 0 /\
  delta - 1 <= da_h_bar tnumR st <= delta /\ 0 <= delta <= 1 /\ 0 < gamma /\ 0 <= 1 / 2 <= 1 /\
  da_h_bar tnumR (da_step tnumR delta gamma kappa 10 5 st (1 / 2)) = 3 / 110.
Proof.
  cbv zeta. cbn [da_m da_eps da_eps_bar da_h_bar].
  split; [repeat constructor|].
  repeat (split; [Lra.lra|]).
  rewrite C04_hbar_update. cbn. Lra.lra.
Qed.

(* a frozen state (m = 7 >= nd = 5): hypothesis of (2) *)
Example C04_frozen_hypothesis_satisfiable :
  let st := Build_dastate tnumR 7 (1 / 4) (1 / 4) 0 0 in
  (5 <= da_m tnumR st)%nat /\
  da_eps tnumR (da_step tnumR (4 / 5) (1 / 20) (3 / 4) 10 5 st (1 / 2)) = 1 / 4.
Proof.
  cbv zeta. split; [cbn; repeat constructor|].
  pose proof (C04_frozen_step (4 / 5) (1 / 20) (3 / 4) 10 5
                (Build_dastate tnumR 7 (1 / 4) (1 / 4) 0 0) (1 / 2)) as H.
  cbv zeta in H. destruct H as [H _]; [cbn; repeat constructor | exact H].
Qed.

(* (5): acceptance probability exp(-eps): 1/2 is accepted with probability > 1/2, 1 is not *)

(* interval evaluation on dyadic inputs (delta 13/16, gamma 13/256, kappa 3/4, nd 5, m 0,
   eps 1/2, eps_bar 1, h_bar 0, mu 13/8, a 1/2): three enclosures, all six bounds finite and
   positive (sign entry 1; a NaN bound would show 2) *)
Example C04_interval_eval_finite :
  let out := da_eval (idy 13 (-4)) (idy 13 (-8)) (idy 3 (-2)) 5 0
                     (idy 1 (-1)) (idy 1 0) (idy 0 0) (idy 13 (-3)) (idy 1 (-1)) in
  length out = 18%nat /\
  map (fun i => nth i out 2%Z) [0; 3; 6; 9; 12; 15]%nat = [1; 1; 1; 1; 1; 1]%Z.
Proof. vm_compute. split; reflexivity. Qed.

(* (7): two oracles for which find_eps does not stop at 1/2: lap e = -16 e^2 (lap 1 = -16 < ln(1/2):
   halve while lap < ln(1/2); lap(1/4) = -1 passes, lap(1/8) = -1/4 fails) and lap e = -e^2/16
   (lap 1 = -1/16 > ln(1/2): double; lap 1, lap 2 = -1/4 pass, lap 4 = -1 fails) *)
Example C04_find_eps_example :
  find_eps (fun e => - (16 * e * e)) 5 = Some (1 / 8) /\
  find_eps (fun e => - (e * e / 16)) 5 = Some 4.
Proof.
  assert (Hb : - (7 / 10) < ln (1 / 2) < - (69 / 100)).
  { pose proof lnhalf_bounds as Hq. unfold lnhalf_lo, lnhalf_hi, Q2R in Hq. cbn [Qnum Qden] in Hq.
    split; Lra.lra. }
  pose proof ln_half as Hl.
  split; unfold find_eps, direction; cbv zeta.
  - destruct (Rlt_dec (ln (1 / 2)) (- (16 * 1 * 1))) as [H|H]; [exfalso; Lra.lra|].
    cbn [find_loop]. rewrite Rpower_2_m1.
    repeat match goal with
           | |- (if Rlt_dec ?a ?b then _ else _) = _ =>
               destruct (Rlt_dec a b); [try (exfalso; Lra.lra) | try (exfalso; Lra.lra)]
           end.
    f_equal. Lra.lra.
  - destruct (Rlt_dec (ln (1 / 2)) (- (1 * 1 / 16))) as [H|H]; [|exfalso; Lra.lra].
    cbn [find_loop]. rewrite Rpower_2_1.
    repeat match goal with
           | |- (if Rlt_dec ?a ?b then _ else _) = _ =>
               destruct (Rlt_dec a b); [try (exfalso; Lra.lra) | try (exfalso; Lra.lra)]
           end.
    f_equal. Lra.lra.
Qed.

(* the rational evaluation on the 1-D standard Gaussian target from x = 1, p = 1 agrees under both
   bounds and prints 4/1, so C04_find_eps_eval_sound applies: the real model returns 4 there *)
Example C04_find_eps_eval_example :
  find_eps_eval [[1%Q]] [1%Q] [1%Q] = qout 4%Q ++ qout 4%Q /\
  find_eps (lap_gauss numR (map (map Q2R) [[1%Q]]) (map Q2R [1%Q]) (map Q2R [1%Q])) 40
  = Some (Q2R 4%Q).
Proof.
  assert (H : find_eps_eval [[1%Q]] [1%Q] [1%Q] = qout 4%Q ++ qout 4%Q) by (vm_compute; reflexivity).
  split; [exact H|]. apply C04_find_eps_eval_sound; [exact H|].
  unfold Q2R. cbn. Lra.lra.
Qed.

(* ---- (8) find_reasonable_epsilon when the log acceptance probability may be -inf, +inf or NaN ----
   (Model/FindEps.v, Section FindEpsX: a leapfrog step that leaves the support of the target has
   log-density -inf; comparisons follow IEEE: every comparison with NaN is false,
   -inf < every finite value < +inf.  `xval A` = XFin a | XNegInf | XPosInf | XNaN.) *)

(* on an oracle that only returns finite values the extended model is the finite one of (7) *)
Theorem C04_find_eps_x_fin : forall (K : Num) (lap : K -> K) (lnhalf : K) (fuel : nat),
  find_eps_x K (fun e => XFin (lap e)) lnhalf fuel = find_eps_gen K lap lnhalf fuel.
Proof. exact find_eps_x_fin. Qed.

(* whatever the oracle returns (infinities and NaN included), a returned initial step size lies on the
   grid 1/2 * 2^(+-k), k <= fuel ... *)
Theorem C04_find_eps_x_grid : forall (lapx : R -> xval R) (fuel : nat) (e : R),
  find_eps_x numR lapx (ln (1 / 2)) fuel = Some e ->
  exists (k : nat) (up : bool), (k <= fuel)%nat /\ e = 1 / 2 * (if up then 2 else / 2) ^ k.
Proof. exact find_eps_x_grid. Qed.

(* ... hence is positive (and finite: it is a real number) *)
Theorem C04_find_eps_x_positive : forall (lapx : R -> xval R) (fuel : nat) (e : R),
  find_eps_x numR lapx (ln (1 / 2)) fuel = Some e -> 0 < e.
Proof. exact find_eps_x_positive. Qed.

(* the special values at the first test (the step of size 1): NaN stops at 1/2; +inf doubles at least
   once; -inf (the step of size 1 leaves the support) halves at least once *)
Theorem C04_find_eps_x_special_values : forall (lapx : R -> xval R) (fuel : nat),
  (lapx 1 = XNaN -> find_eps_x numR lapx (ln (1 / 2)) fuel = Some (1 / 2))
  /\ (lapx 1 = XPosInf -> forall e : R, find_eps_x numR lapx (ln (1 / 2)) fuel = Some e ->
        (exists k : nat, (1 <= k <= fuel)%nat /\ e = 1 / 2 * 2 ^ k) /\ 1 <= e)
  /\ (lapx 1 = XNegInf -> forall e : R, find_eps_x numR lapx (ln (1 / 2)) fuel = Some e ->
        (exists k : nat, (1 <= k <= fuel)%nat /\ e = 1 / 2 * (/ 2) ^ k) /\ 0 < e <= 1 / 4).
Proof.
  intros lapx fuel. split; [|split].
  - exact (find_eps_x_nan_first lapx fuel).
  - intros H e. exact (find_eps_x_posinf_first lapx fuel e H).
  - intros H e. exact (find_eps_x_neginf_first lapx fuel e H).
Qed.

(* soundness of the rational evaluation, as C04_find_eps_bracket: lapQ is the rational restriction of
   lapR (xmap f applies f to a finite value and keeps -inf, +inf, NaN) *)
Theorem C04_find_eps_x_bracket :
  forall (lapQ : Q -> xval Q) (lapR : R -> xval R) (lo hi : Q) (fuel : nat) (e : Q),
  (forall q : Q, lapR (Q2R q) = xmap Q2R (lapQ q)) ->
  Q2R lo < ln (1 / 2) < Q2R hi ->
  find_eps_x numQ lapQ lo fuel = Some e ->
  find_eps_x numQ lapQ hi fuel = Some e ->
  find_eps_x numR lapR (ln (1 / 2)) fuel = Some (Q2R e).
Proof. exact find_eps_x_bracket. Qed.

(* the log acceptance probability of one leapfrog step on the half-line target (log p = -x0 - sum x_i^2/2
   for x0 > 0, -inf otherwise) commutes with the embedding of Q into R *)
Theorem C04_lapx_halfline_q2r : forall (x p : list Q) (e : Q),
  lapx_halfline numR (map Q2R x) (map Q2R p) (Q2R e) = xmap Q2R (lapx_halfline numQ x p e).
Proof. exact q2r_lapx_halfline. Qed.

(* hence the in-Coq evaluation on the half-line target is sound: when its two halves (lower / upper bound
   of ln(1/2), fuel 40) print the same positive rational e, the extended real model returns e *)
Theorem C04_find_eps_x_eval_sound : forall (x p : list Q) (e : Q),
  find_eps_x_eval x p = qout e ++ qout e -> 0 < Q2R e ->
  find_eps_x numR (lapx_halfline numR (map Q2R x) (map Q2R p)) (ln (1 / 2)) 40 = Some (Q2R e).
Proof. exact find_eps_x_eval_sound. Qed.

(* non-vacuity, on a case where a step leaves the support: from x = 1/2 with momentum -2 the steps of size
   1 and 1/4 end at x0 <= 0 (log acceptance probability -inf), the step of size 1/8 stays inside; the
   evaluation prints 1/8 under both bounds, so the real model returns 1/8 *)
Example C04_find_eps_x_example :
  lapx_halfline numQ [(1 # 2)%Q] [(-2)%Q] 1%Q = XNegInf /\
  find_eps_x_eval [(1 # 2)%Q] [(-2)%Q] = qout (1 # 8)%Q ++ qout (1 # 8)%Q /\
  find_eps_x numR (lapx_halfline numR (map Q2R [(1 # 2)%Q]) (map Q2R [(-2)%Q])) (ln (1 / 2)) 40
  = Some (Q2R (1 # 8)%Q).
Proof.
  assert (H : find_eps_x_eval [(1 # 2)%Q] [(-2)%Q] = qout (1 # 8)%Q ++ qout (1 # 8)%Q)
    by (vm_compute; reflexivity).
  split; [vm_compute; reflexivity|].
  split; [exact H|]. apply C04_find_eps_x_eval_sound; [exact H|].
  unfold Q2R. cbn. Lra.lra.
Qed.


(* ---- (9) the acceptance statistic that drives the adaptation (repair D10): the term a leaf contributes is never
   NaN, is 0 when the energy change is NaN (a leaf outside the target's domain), and never exceeds 1, for every
   float format and every computed ratio; the pre-repair rule returned 1 for a NaN ratio, which let dual
   averaging grow the step size to +inf ---- *)
From MiniMcmc Require Import Base.Fp Model.NUTSEval Proofs.LeafAlpha.
Local Close Scope R_scope.
Local Close Scope Q_scope.
Section C04_leaf_alpha.
  Variables prec emax : Z.
  Context (Hprec : FLX.Prec_gt_0 prec) (Hmax : BinarySingleNaN.Prec_lt_emax prec emax).
  Notation fl := (binary_float prec emax).
  Variable one : fl.
  Hypothesis one_not_nan : fnan one = false.
  Hypothesis one_not_below_zero : flt one (Binary.B754_zero prec emax false) = false.

  Theorem C04_leaf_alpha : forall r : fl,
    fnan (leaf_alpha one r) = false /\
    (fnan r = true -> leaf_alpha one r = Binary.B754_zero prec emax false) /\
    (fnan r = false -> (flt r one = true -> leaf_alpha one r = r) /\ (flt r one = false -> leaf_alpha one r = one)) /\
    flt one (leaf_alpha one r) = false.
  Proof.
    intros r. split; [exact (leaf_alpha_not_nan prec emax one one_not_nan r)|].
    split; [exact (leaf_alpha_nan prec emax one r)|].
    split; [exact (leaf_alpha_min prec emax one r) | exact (leaf_alpha_le_one prec emax one one_not_below_zero r)].
  Qed.

  Theorem C04_leaf_alpha_old_refuted : forall r : fl, fnan r = true -> leaf_alpha_old one r = one.
  Proof. exact (leaf_alpha_old_nan prec emax one). Qed.
End C04_leaf_alpha.

(* binary32: the canonical NaN ratio gives 0 now and gave 1.0 before; 0.25 stays, 3.0 is capped at 1.0; and the
   hypotheses of C04_leaf_alpha hold for 1.0f32 *)
Example C04_leaf_alpha_concrete :
  leaf_alphas32 [2143289344; 1048576000; 1077936128]%Z = [0; 1048576000; 1065353216]%Z /\
  bits_of_b32 (leaf_alpha_old (b32_of_bits 1065353216) (b32_of_bits 2143289344)) = 1065353216%Z /\
  fnan (b32_of_bits 1065353216) = false /\
  flt (b32_of_bits 1065353216) (Binary.B754_zero 24 128 false) = false.
Proof. repeat split; vm_compute; reflexivity. Qed.

(* ---- (10) the acceptance statistic of the FLOAT computation lies in [0,1] (the hypothesis `0 <= a <= 1` of
   the C04_hbar_bounds theorems): for every IEEE format (prec, emax), round to nearest even, (a) the term a leaf contributes
   is a finite number in [0,1] whatever exp returned (NaN, +inf, or a non-negative finite number); (b) the
   tree-ordered float sum alpha' + alpha'' over a sub-tree of depth j with 2^j <= 2^prec is a finite number
   in [0, n_alpha]; (c) alpha / (n_alpha as T) is a finite number in [0,1].  Proofs/AlphaRange.v ---- *)
From MiniMcmc Require Import Model.NUTS Proofs.AlphaRange.
Section C04_alpha_range.
  Variables prec emax : Z.
  Context (Hprec : FLX.Prec_gt_0 prec) (Hmax : BinarySingleNaN.Prec_lt_emax prec emax).
  Notation fl := (binary_float prec emax).
  Variable nanf : fl -> fl -> { x : fl | Binary.is_nan prec emax x = true }.
  Variable one : fl.
  Hypothesis one_finite : Binary.is_finite prec emax one = true.
  Hypothesis one_value : Binary.B2R prec emax one = 1%R.

  Theorem C04_leaf_term_range : forall r : fl,
    fnan r = true \/ r = Binary.B754_infinity prec emax false \/
    (Binary.is_finite prec emax r = true /\ (0 <= Binary.B2R prec emax r)%R) ->
    Binary.is_finite prec emax (leaf_alpha one r) = true /\
    (0 <= Binary.B2R prec emax (leaf_alpha one r) <= 1)%R.
  Proof. exact (leaf_alpha_range prec emax one one_finite one_value). Qed.

  (* one float addition of two partial sums bounded by integer counts *)
  Theorem C04_alpha_add_range : forall (x y : fl) (a b : Z),
    Binary.is_finite prec emax x = true -> Binary.is_finite prec emax y = true ->
    (0 <= a)%Z -> (0 <= b)%Z -> (a + b <= 2 ^ prec)%Z ->
    (0 <= Binary.B2R prec emax x <= IZR a)%R -> (0 <= Binary.B2R prec emax y <= IZR b)%R ->
    Binary.is_finite prec emax (fplus nanf x y) = true /\
    (0 <= Binary.B2R prec emax (fplus nanf x y) <= IZR (a + b))%R.
  Proof. exact (fplus_range prec emax Hprec Hmax nanf). Qed.

  (* the quotient by the exactly converted count *)
  Theorem C04_count_quotient_range : forall (s : fl) (n : nat),
    Binary.is_finite prec emax s = true -> (0 <= Binary.B2R prec emax s <= INR n)%R ->
    (1 <= n)%nat -> (Z.of_nat n <= 2 ^ prec)%Z ->
    let nf := Binary.binary_normalize prec emax Hprec Hmax mode_NE (Z.of_nat n) 0 false in
    (Binary.is_finite prec emax nf = true /\ Binary.B2R prec emax nf = INR n) /\
    Binary.is_finite prec emax (fdiv nanf s nf) = true /\
    (0 <= Binary.B2R prec emax (fdiv nanf s nf) <= 1)%R.
  Proof.
    intros s n Fs Hs Hn1 Hn nf. split.
    - exact (nat_fl_exact prec emax Hprec Hmax n Hn).
    - exact (fdiv_count_range prec emax Hprec Hmax nanf s n Fs Hs Hn1 Hn).
  Qed.

  Section Tree.
    Context {P F U : Type}.
    Variable leap : bool -> P -> P.
    Variable joint : P -> F.
    Variable noturn : P -> P -> bool.
    Variable fltF : F -> F -> bool.
    Variable sub1000 : F -> F.
    Variable take2 : U -> nat -> nat -> bool.
    Variable logu : F.

    Section AnyLeafTerm.
      Variable alpha1 : P -> fl.
      Hypothesis Halpha : forall z,
        Binary.is_finite prec emax (alpha1 z) = true /\ (0 <= Binary.B2R prec emax (alpha1 z) <= 1)%R.

      Theorem C04_alpha_sum_range : forall j z v us t us',
        build_tree leap joint noturn fltF sub1000 alpha1 (fplus nanf) take2 logu j z v us = Some (t, us') ->
        (2 ^ Z.of_nat j <= 2 ^ prec)%Z ->
        (1 <= tnalpha t <= 2 ^ j)%nat /\
        Binary.is_finite prec emax (talpha t) = true /\
        (0 <= Binary.B2R prec emax (talpha t) <= INR (tnalpha t))%R.
      Proof.
        intros j z v us t us' H Hj. split.
        - exact (build_tree_tnalpha_bounds prec emax Hprec Hmax nanf leap joint noturn fltF sub1000 alpha1
                   take2 logu _ _ _ _ _ _ H).
        - exact (build_tree_talpha_range prec emax Hprec Hmax nanf leap joint noturn fltF sub1000 alpha1
                   take2 logu Halpha _ _ _ _ _ _ H Hj).
      Qed.

      Theorem C04_acceptance_statistic_range : forall j z v us t us',
        build_tree leap joint noturn fltF sub1000 alpha1 (fplus nanf) take2 logu j z v us = Some (t, us') ->
        (2 ^ Z.of_nat j <= 2 ^ prec)%Z ->
        let n_alpha_as_T :=
          Binary.binary_normalize prec emax Hprec Hmax mode_NE (Z.of_nat (tnalpha t)) 0 false in
        Binary.is_finite prec emax (fdiv nanf (talpha t) n_alpha_as_T) = true /\
        (0 <= Binary.B2R prec emax (fdiv nanf (talpha t) n_alpha_as_T) <= 1)%R.
      Proof.
        intros j z v us t us' H Hj.
        exact (acceptance_statistic_in_unit_interval prec emax Hprec Hmax nanf leap joint noturn fltF sub1000
                 alpha1 take2 logu Halpha _ _ _ _ _ _ H Hj).
      Qed.
    End AnyLeafTerm.

    (* with the leaf rule of the code: alpha1 z = leaf_alpha 1 (ratio z), ratio z = whatever exp returned *)
    Variable ratio : P -> fl.
    Hypothesis Hratio : forall z,
      fnan (ratio z) = true \/ ratio z = Binary.B754_infinity prec emax false \/
      (Binary.is_finite prec emax (ratio z) = true /\ (0 <= Binary.B2R prec emax (ratio z))%R).

    Theorem C04_acceptance_statistic_leaf_rule : forall j z v us t us',
      build_tree leap joint noturn fltF sub1000 (fun p => leaf_alpha one (ratio p)) (fplus nanf) take2 logu
        j z v us = Some (t, us') ->
      (2 ^ Z.of_nat j <= 2 ^ prec)%Z ->
      let n_alpha_as_T :=
        Binary.binary_normalize prec emax Hprec Hmax mode_NE (Z.of_nat (tnalpha t)) 0 false in
      (Binary.is_finite prec emax (talpha t) = true /\
       (0 <= Binary.B2R prec emax (talpha t) <= INR (tnalpha t))%R) /\
      Binary.is_finite prec emax (fdiv nanf (talpha t) n_alpha_as_T) = true /\
      (0 <= Binary.B2R prec emax (fdiv nanf (talpha t) n_alpha_as_T) <= 1)%R.
    Proof.
      intros j z v us t us' H Hj.
      exact (acceptance_statistic_leaf_rule prec emax Hprec Hmax nanf leap joint noturn fltF sub1000 ratio
               take2 logu one one_finite one_value Hratio _ _ _ _ _ _ H Hj).
    Qed.
  End Tree.
End C04_alpha_range.

(* binary32 (prec 24, emax 128): 1.0f32 = bits 1065353216 is finite with value 1, so the hypotheses on `one` hold;
   a depth-2 tree whose four leaves contribute 0.5, 1, 0.5, 1 meets every hypothesis of
   C04_acceptance_statistic_range; its float sum is 3.0f32 (bits 1077936128), n_alpha = 4 and the statistic is
   0.75f32 (bits 1061158912), inside [0,1] as the theorem says *)
Definition c04_one32 : binary32 := Binary.B754_finite 24 128 false 8388608 (-23) eq_refl.
Definition c04_half32 : binary32 := Binary.B754_finite 24 128 false 8388608 (-24) eq_refl.
Lemma c04_one32_bits : b32_of_bits 1065353216 = c04_one32.
Proof. exact (binary_float_of_bits_of_binary_float 23 8 eq_refl eq_refl eq_refl c04_one32). Qed.
Lemma c04_one32_R : Binary.B2R 24 128 c04_one32 = 1%R.
Proof.
  unfold c04_one32, Binary.B2R, Defs.F2R.
  cbn [Defs.Fnum Defs.Fexp cond_Zopp Raux.bpow Z.pow_pos Pos.iter radix_val radix2 Z.mul Pos.mul]. Lra.lra.
Qed.
Lemma c04_half32_R : Binary.B2R 24 128 c04_half32 = (/ 2)%R.
Proof.
  unfold c04_half32, Binary.B2R, Defs.F2R.
  cbn [Defs.Fnum Defs.Fexp cond_Zopp Raux.bpow Z.pow_pos Pos.iter radix_val radix2 Z.mul Pos.mul]. Lra.lra.
Qed.
Definition c04_alpha32 (p : nat) : binary32 := if Nat.even p then c04_one32 else c04_half32.
Definition c04_bt32 : option (@tree nat binary32 * list unit) :=
  build_tree (fun (_ : bool) (p : nat) => S p) (fun _ : nat => tt) (fun _ _ : nat => true)
    (fun _ _ : unit => true) (fun u : unit => u) c04_alpha32 (fplus binop_nan_pl32)
    (fun (_ : unit) (_ _ : nat) => false) tt 2 0%nat true [tt; tt; tt].

Example C04_alpha_range_binary32 :
  Binary.is_finite 24 128 (b32_of_bits 1065353216) = true /\
  Binary.B2R 24 128 (b32_of_bits 1065353216) = 1%R /\
  (forall r : binary32,
     fnan r = true \/ r = Binary.B754_infinity 24 128 false \/
     (Binary.is_finite 24 128 r = true /\ (0 <= Binary.B2R 24 128 r)%R) ->
     Binary.is_finite 24 128 (leaf_alpha (b32_of_bits 1065353216) r) = true /\
     (0 <= Binary.B2R 24 128 (leaf_alpha (b32_of_bits 1065353216) r) <= 1)%R) /\
  (forall p, Binary.is_finite 24 128 (c04_alpha32 p) = true /\
             (0 <= Binary.B2R 24 128 (c04_alpha32 p) <= 1)%R) /\
  (2 ^ Z.of_nat 2 <= 2 ^ 24)%Z /\
  match c04_bt32 with
  | Some (t, _) =>
      let q := fdiv binop_nan_pl32 (talpha t)
                 (Binary.binary_normalize 24 128 prec32 emax32 mode_NE (Z.of_nat (tnalpha t)) 0 false) in
      tnalpha t = 4%nat /\ bits_of_b32 (talpha t) = 1077936128%Z /\ bits_of_b32 q = 1061158912%Z /\
      Binary.is_finite 24 128 (talpha t) = true /\
      (0 <= Binary.B2R 24 128 (talpha t) <= INR (tnalpha t))%R /\
      Binary.is_finite 24 128 q = true /\ (0 <= Binary.B2R 24 128 q <= 1)%R
  | None => False
  end.
Proof.
  assert (F1 : Binary.is_finite 24 128 (b32_of_bits 1065353216) = true) by (vm_compute; reflexivity).
  assert (V1 : Binary.B2R 24 128 (b32_of_bits 1065353216) = 1%R)
    by (rewrite c04_one32_bits; exact c04_one32_R).
  assert (Ha : forall p, Binary.is_finite 24 128 (c04_alpha32 p) = true /\
                         (0 <= Binary.B2R 24 128 (c04_alpha32 p) <= 1)%R).
  { intros p. unfold c04_alpha32. destruct (Nat.even p).
    - split; [reflexivity|]. rewrite c04_one32_R. Lra.lra.
    - split; [reflexivity|]. rewrite c04_half32_R. Lra.lra. }
  assert (Hj : (2 ^ Z.of_nat 2 <= 2 ^ 24)%Z) by (vm_compute; discriminate).
  split; [exact F1|]. split; [exact V1|].
  split; [exact (C04_leaf_term_range 24 128 (b32_of_bits 1065353216) F1 V1)|].
  split; [exact Ha|]. split; [exact Hj|].
  assert (Hc : match c04_bt32 with
               | Some (t, _) =>
                   tnalpha t = 4%nat /\ bits_of_b32 (talpha t) = 1077936128%Z /\
                   bits_of_b32 (fdiv binop_nan_pl32 (talpha t)
                      (Binary.binary_normalize 24 128 prec32 emax32 mode_NE (Z.of_nat (tnalpha t)) 0 false))
                   = 1061158912%Z
               | None => False
               end) by (vm_compute; repeat split; reflexivity).
  destruct c04_bt32 as [[t us']|] eqn:E; [|exact Hc].
  unfold c04_bt32 in E. destruct Hc as (Hn & Hs & Hq).
  destruct (C04_alpha_sum_range 24 128 prec32 emax32 binop_nan_pl32 _ _ _ _ _ _ _ c04_alpha32 Ha
              _ _ _ _ _ _ E Hj) as (_ & Fs & Rs).
  destruct (C04_acceptance_statistic_range 24 128 prec32 emax32 binop_nan_pl32 _ _ _ _ _ _ _ c04_alpha32 Ha
              _ _ _ _ _ _ E Hj) as (Fq & Rq).
  cbv zeta. repeat split; try assumption; try (apply Rs); try (apply Rq).
Qed.

(* ---- (11) the H_bar update IN FLOATING POINT (Model/NUTSEval.v hbar_step: the model the correspondence check
   evaluates bit for bit after every transition), for every IEEE format with at least two bits of precision, round
   to nearest even.  With delta in [0,1], alpha in [0, n_alpha] (section (10)) and the counts m + 10 and n_alpha
   at most 2^prec: (a) the counts are converted exactly; (b) for |H_bar| <= 2 nothing overflows and the new H_bar
   is the real expression of C04_hbar_update with each of its seven operations rounded; (c) H_bar in [-1,1] stays
   in [-1,1] -- the float counterpart of C04_hbar_bounds_step, rounding slack included; (d) the new float H_bar is
   within 4 * 2^-prec of the real-number update (absolute error; underflow included).  `rnd` below is rounding
   to nearest even in the format.  Proofs/HbarStep.v ---- *)
From MiniMcmc Require Import Proofs.HbarStep.
Section C04_hbar_step.
  Variables prec emax : Z.
  Context (Hprec : FLX.Prec_gt_0 prec) (Hmax : BinarySingleNaN.Prec_lt_emax prec emax).
  Hypothesis prec_ge_2 : (2 <= prec)%Z.
  Notation fl := (binary_float prec emax).
  Variable nanf : fl -> fl -> { x : fl | Binary.is_nan prec emax x = true }.
  Notation rnd := (Generic_fmt.round Zaux.radix2 (FLT.FLT_exp (3 - emax - prec) prec)
                     (Generic_fmt.Znearest (fun x => negb (Z.even x)))).

  Theorem C04_hbar_step_count_exact : forall n : nat, (Z.of_nat n <= 2 ^ prec)%Z ->
    Binary.is_finite prec emax (count_fl prec emax Hprec Hmax n) = true /\
    Binary.B2R prec emax (count_fl prec emax Hprec Hmax n) = INR n.
  Proof. exact (count_fl_exact prec emax Hprec Hmax). Qed.

  Theorem C04_hbar_step_rounded_value : forall (one delta h alpha : fl) (m n_alpha : nat),
    Binary.is_finite prec emax one = true -> Binary.is_finite prec emax delta = true ->
    Binary.is_finite prec emax h = true -> Binary.is_finite prec emax alpha = true ->
    Binary.B2R prec emax one = 1%R ->
    (1 <= n_alpha)%nat -> (Z.of_nat (m + 10) <= 2 ^ prec)%Z -> (Z.of_nat n_alpha <= 2 ^ prec)%Z ->
    (0 <= Binary.B2R prec emax delta <= 1)%R ->
    (0 <= Binary.B2R prec emax alpha <= INR n_alpha)%R ->
    (Rabs (Binary.B2R prec emax h) <= 2)%R ->
    let e := rnd (1 / INR (m + 10))%R in
    Binary.B2R prec emax (hbar_step nanf one delta h alpha m n_alpha)
    = rnd (rnd (rnd (1 - e) * Binary.B2R prec emax h)
           + rnd (e * rnd (Binary.B2R prec emax delta
                           - rnd (Binary.B2R prec emax alpha / INR n_alpha))))%R /\
    Binary.is_finite prec emax (hbar_step nanf one delta h alpha m n_alpha) = true.
  Proof.
    intros one delta h alpha m n_alpha F1 Fd Fh Fa V1 Hn1 HN Hn Hd Ha Hh.
    exact (hbar_step_rounded prec emax Hprec Hmax nanf prec_ge_2 one delta h alpha m n_alpha
             F1 Fd Fh Fa V1 Hn1 HN Hn Hd Ha Hh).
  Qed.

  Theorem C04_hbar_step_range : forall (one delta h alpha : fl) (m n_alpha : nat),
    Binary.is_finite prec emax one = true -> Binary.is_finite prec emax delta = true ->
    Binary.is_finite prec emax h = true -> Binary.is_finite prec emax alpha = true ->
    Binary.B2R prec emax one = 1%R ->
    (1 <= n_alpha)%nat -> (Z.of_nat (m + 10) <= 2 ^ prec)%Z -> (Z.of_nat n_alpha <= 2 ^ prec)%Z ->
    (0 <= Binary.B2R prec emax delta <= 1)%R ->
    (0 <= Binary.B2R prec emax alpha <= INR n_alpha)%R ->
    (-1 <= Binary.B2R prec emax h <= 1)%R ->
    Binary.is_finite prec emax (hbar_step nanf one delta h alpha m n_alpha) = true /\
    (-1 <= Binary.B2R prec emax (hbar_step nanf one delta h alpha m n_alpha) <= 1)%R.
  Proof.
    intros one delta h alpha m n_alpha F1 Fd Fh Fa V1 Hn1 HN Hn Hd Ha Hh.
    exact (hbar_step_range prec emax Hprec Hmax nanf prec_ge_2 one delta h alpha m n_alpha
             F1 Fd Fh Fa V1 Hn1 HN Hn Hd Ha Hh).
  Qed.

  Theorem C04_hbar_step_error : forall (one delta h alpha : fl) (m n_alpha : nat),
    Binary.is_finite prec emax one = true -> Binary.is_finite prec emax delta = true ->
    Binary.is_finite prec emax h = true -> Binary.is_finite prec emax alpha = true ->
    Binary.B2R prec emax one = 1%R ->
    (1 <= n_alpha)%nat -> (Z.of_nat (m + 10) <= 2 ^ prec)%Z -> (Z.of_nat n_alpha <= 2 ^ prec)%Z ->
    (0 <= Binary.B2R prec emax delta <= 1)%R ->
    (0 <= Binary.B2R prec emax alpha <= INR n_alpha)%R ->
    (-1 <= Binary.B2R prec emax h <= 1)%R ->
    (Rabs (Binary.B2R prec emax (hbar_step nanf one delta h alpha m n_alpha)
           - ((1 - 1 / INR (m + 10)) * Binary.B2R prec emax h
              + 1 / INR (m + 10)
                * (Binary.B2R prec emax delta - Binary.B2R prec emax alpha / INR n_alpha)))
     <= 4 * Raux.bpow Zaux.radix2 (- prec))%R.
  Proof.
    intros one delta h alpha m n_alpha F1 Fd Fh Fa V1 Hn1 HN Hn Hd Ha Hh.
    exact (hbar_step_error prec emax Hprec Hmax nanf prec_ge_2 one delta h alpha m n_alpha
             F1 Fd Fh Fa V1 Hn1 HN Hn Hd Ha Hh).
  Qed.
End C04_hbar_step.

(* binary32: one = 1.0f32, delta = 0.8f32 (bits 1061997773 = 13421773 * 2^-24), H_bar = 0, alpha = 1.0 over
   n_alpha = 2 leaves, first update (m = 1, eta = 1/11): every hypothesis of the three theorems holds, the new
   H_bar has bits 1021274895 (~ 0.0272727), and the conclusions of (b), (c), (d) follow for it *)
Definition c04_delta32 : binary32 := Binary.B754_finite 24 128 false 13421773 (-24) eq_refl.
Lemma c04_delta32_bits : b32_of_bits 1061997773 = c04_delta32.
Proof. exact (binary_float_of_bits_of_binary_float 23 8 eq_refl eq_refl eq_refl c04_delta32). Qed.
Lemma c04_delta32_R : Binary.B2R 24 128 c04_delta32 = (13421773 / 16777216)%R.
Proof.
  unfold c04_delta32, Binary.B2R, Defs.F2R.
  cbn [Defs.Fnum Defs.Fexp cond_Zopp Raux.bpow Z.pow_pos Pos.iter radix_val radix2 Z.mul Pos.mul]. Lra.lra.
Qed.
Lemma c04_zero32_bits : b32_of_bits 0 = Binary.B754_zero 24 128 false.
Proof. vm_compute. reflexivity. Qed.

Example C04_hbar_step_binary32 :
  let one := b32_of_bits 1065353216 in
  let delta := b32_of_bits 1061997773 in
  let h := b32_of_bits 0 in
  let alpha := b32_of_bits 1065353216 in
  let r := hbar_step binop_nan_pl32 one delta h alpha 1 2 in
  hbar_step32 1061997773 0 1065353216 1 2 = [1021274895]%Z /\
  bits_of_b32 r = 1021274895%Z /\
  (2 <= 24)%Z /\
  Binary.is_finite 24 128 one = true /\ Binary.is_finite 24 128 delta = true /\
  Binary.is_finite 24 128 h = true /\ Binary.is_finite 24 128 alpha = true /\
  Binary.B2R 24 128 one = 1%R /\
  (1 <= 2)%nat /\ (Z.of_nat (1 + 10) <= 2 ^ 24)%Z /\ (Z.of_nat 2 <= 2 ^ 24)%Z /\
  (0 <= Binary.B2R 24 128 delta <= 1)%R /\
  (0 <= Binary.B2R 24 128 alpha <= INR 2)%R /\
  (-1 <= Binary.B2R 24 128 h <= 1)%R /\ (Rabs (Binary.B2R 24 128 h) <= 2)%R /\
  (* conclusions *)
  Binary.is_finite 24 128 r = true /\
  (-1 <= Binary.B2R 24 128 r <= 1)%R /\
  (Rabs (Binary.B2R 24 128 r
         - ((1 - 1 / INR (1 + 10)) * Binary.B2R 24 128 h
            + 1 / INR (1 + 10) * (Binary.B2R 24 128 delta - Binary.B2R 24 128 alpha / INR 2)))
   <= 4 * Raux.bpow Zaux.radix2 (- 24))%R /\
  (let rnd := Generic_fmt.round Zaux.radix2 (FLT.FLT_exp (3 - 128 - 24) 24)
                (Generic_fmt.Znearest (fun x => negb (Z.even x))) in
   let e := rnd (1 / INR (1 + 10))%R in
   Binary.B2R 24 128 r
   = rnd (rnd (rnd (1 - e) * Binary.B2R 24 128 h)
          + rnd (e * rnd (Binary.B2R 24 128 delta - rnd (Binary.B2R 24 128 alpha / INR 2))))%R).
Proof.
  intros one delta h alpha r.
  assert (P2 : (2 <= 24)%Z) by (vm_compute; discriminate).
  assert (F1 : Binary.is_finite 24 128 one = true) by (vm_compute; reflexivity).
  assert (Fd : Binary.is_finite 24 128 delta = true) by (vm_compute; reflexivity).
  assert (Fh : Binary.is_finite 24 128 h = true) by (vm_compute; reflexivity).
  assert (V1 : Binary.B2R 24 128 one = 1%R)
    by (unfold one; rewrite c04_one32_bits; exact c04_one32_R).
  assert (Hn1 : (1 <= 2)%nat) by (apply le_S, le_n).
  assert (HN : (Z.of_nat (1 + 10) <= 2 ^ 24)%Z) by (vm_compute; discriminate).
  assert (Hn : (Z.of_nat 2 <= 2 ^ 24)%Z) by (vm_compute; discriminate).
  assert (Hd : (0 <= Binary.B2R 24 128 delta <= 1)%R)
    by (unfold delta; rewrite c04_delta32_bits, c04_delta32_R; Lra.lra).
  assert (Ha : (0 <= Binary.B2R 24 128 alpha <= INR 2)%R).
  { change alpha with one. rewrite V1. cbn [INR]. Lra.lra. }
  assert (Hh : (-1 <= Binary.B2R 24 128 h <= 1)%R).
  { unfold h. rewrite c04_zero32_bits. cbn [Binary.B2R]. Lra.lra. }
  assert (Hh2 : (Rabs (Binary.B2R 24 128 h) <= 2)%R) by (apply Rabs_le; Lra.lra).
  destruct (C04_hbar_step_range 24 128 prec32 emax32 P2 binop_nan_pl32 one delta h alpha 1 2
              F1 Fd Fh F1 V1 Hn1 HN Hn Hd Ha Hh) as [Fr Rr].
  pose proof (C04_hbar_step_error 24 128 prec32 emax32 P2 binop_nan_pl32 one delta h alpha 1 2
                F1 Fd Fh F1 V1 Hn1 HN Hn Hd Ha Hh) as Er.
  destruct (C04_hbar_step_rounded_value 24 128 prec32 emax32 P2 binop_nan_pl32 one delta h alpha 1 2
              F1 Fd Fh F1 V1 Hn1 HN Hn Hd Ha Hh2) as [Vr _].
  split; [vm_compute; reflexivity|]. split; [vm_compute; reflexivity|].
  split; [exact P2|]. split; [exact F1|]. split; [exact Fd|]. split; [exact Fh|]. split; [exact F1|].
  split; [exact V1|]. split; [exact Hn1|]. split; [exact HN|]. split; [exact Hn|].
  split; [exact Hd|]. split; [exact Ha|]. split; [exact Hh|]. split; [exact Hh2|].
  split; [exact Fr|]. split; [exact Rr|]. split; [exact Er|]. exact Vr.
Qed.

Print Assumptions C04_warmup_closed_form.
Print Assumptions C04_warmup_exp_form.
Print Assumptions C04_hbar_update.
Print Assumptions C04_frozen_step.
Print Assumptions C04_frozen.
Print Assumptions C04_counter.
Print Assumptions C04_across_runs_init.
Print Assumptions C04_across_runs_frozen.
Print Assumptions C04_across_runs_warm.
Print Assumptions C04_positive_step.
Print Assumptions C04_positive.
Print Assumptions C04_positive_from_one.
Print Assumptions C04_positive_run.
Print Assumptions C04_hbar_bounds_step.
Print Assumptions C04_hbar_bounds.
Print Assumptions C04_hbar_bounds_from_zero.
Print Assumptions C04_hbar_bounds_run.
Print Assumptions C04_eps_bounds.
Print Assumptions C04_find_eps_post.
Print Assumptions C04_find_eps_complete.
Print Assumptions C04_interval_sound.
Print Assumptions C04_interval_sound_init.
Print Assumptions C04_interval_sound_run.
Print Assumptions C04_find_eps_gen_is_model.
Print Assumptions C04_find_eps_direction.
Print Assumptions C04_find_eps_bracket.
Print Assumptions C04_lnhalf_bounds.
Print Assumptions C04_lap_gauss_q2r.
Print Assumptions C04_find_eps_eval_sound.
Print Assumptions C04_find_eps_example.
Print Assumptions C04_find_eps_eval_example.
Print Assumptions C04_find_eps_x_fin.
Print Assumptions C04_find_eps_x_grid.
Print Assumptions C04_find_eps_x_positive.
Print Assumptions C04_find_eps_x_special_values.
Print Assumptions C04_find_eps_x_bracket.
Print Assumptions C04_lapx_halfline_q2r.
Print Assumptions C04_find_eps_x_eval_sound.
Print Assumptions C04_find_eps_x_example.
Print Assumptions C04_leaf_alpha.
Print Assumptions C04_leaf_alpha_old_refuted.
Print Assumptions C04_leaf_alpha_concrete.
Print Assumptions C04_leaf_term_range.
Print Assumptions C04_alpha_add_range.
Print Assumptions C04_count_quotient_range.
Print Assumptions C04_alpha_sum_range.
Print Assumptions C04_acceptance_statistic_range.
Print Assumptions C04_acceptance_statistic_leaf_rule.
Print Assumptions C04_alpha_range_binary32.
Print Assumptions C04_hbar_step_count_exact.
Print Assumptions C04_hbar_step_rounded_value.
Print Assumptions C04_hbar_step_range.
Print Assumptions C04_hbar_step_error.
Print Assumptions C04_hbar_step_binary32.
