From MiniMcmc Require Import Model.HMC.
