(* C16 — Categorical sampling never returns an index of zero probability, the index is in
   range, and under exact arithmetic index i is selected exactly on an interval of length p_i.
   Model: Model/Categorical.v.  The sampling layer is IEEE-754 (Flocq), generic in the format,
   so the statements hold for binary32 and binary64 and for every NaN-payload convention. *)
From MiniMcmc Require Import Base.Fp Base.Util Model.Categorical Proofs.Categorical.
From Coq Require Import Reals.
Close Scope R_scope.

Section C16_ieee.
  Variables prec emax : Z.
  Context (Hprec : FLX.Prec_gt_0 prec) (Hmax : BinarySingleNaN.Prec_lt_emax prec emax).
  Notation fl := (binary_float prec emax).
  Variable nanf : fl -> fl -> { x : fl | Binary.is_nan prec emax x = true }.

  (* (a) For every non-empty probability vector (any IEEE values) and every variate r (any IEEE
     value, including NaN and values >= 1) the sampled index is a valid index. *)
  Theorem C16_in_range : forall (ps : list fl) (r : fl),
    ps <> [] -> cat_sample nanf ps r < length ps.
  Proof. exact (@cat_sample_in_range prec emax Hprec Hmax nanf). Qed.

  (* (b) Every entry is strictly positive or a zero (of either sign), at least one is strictly
     positive, and r is not below zero (NaN allowed): the sampled index has strictly positive
     probability. *)
  Theorem C16_never_zero : forall (ps : list fl) (r : fl),
    (forall p, In p ps -> fpos p = true \/ exists s, p = Binary.B754_zero prec emax s) ->
    (exists p, In p ps /\ fpos p = true) ->
    flt r fzero = false ->
    fpos (nth (cat_sample nanf ps r) ps fzero) = true.
  Proof. exact (@cat_sample_never_zero prec emax Hprec Hmax nanf). Qed.
End C16_ieee.

(* (c) The rule before the repair (`r <= cum`, fallback len-1) violates the property: binary32,
   weights [0.0; 1.0], r = +0.0 meets every hypothesis of C16_never_zero and index 0, of
   probability zero, is returned. *)
Theorem C16_old_rule_refuted :
  exists (ps : list (binary_float 24 128)) (r : binary_float 24 128),
    fpos (nth (cat_sample_old binop_nan_pl32 ps r) ps fzero) = false /\
    (forall p, In p ps -> fpos p = true \/ exists s, p = Binary.B754_zero 24 128 s) /\
    (exists p, In p ps /\ fpos p = true) /\
    flt r fzero = false.
Proof. exists old_ps, old_r. exact (proj2 old_rule_witness). Qed.

Open Scope R_scope.

(* (d) exact arithmetic: the constructor normalises, and the scan realises the categorical law *)
Theorem C16_normalised : forall ws : list R,
  (forall w, In w ws -> 0 <= w) -> 0 < sumlR ws ->
  sumlR (cat_new_R ws) = 1 /\ (forall p, In p (cat_new_R ws) -> 0 <= p).
Proof. exact cat_new_R_normalised. Qed.

(* index i is returned exactly for r in [p_0+..+p_{i-1}, p_0+..+p_i), an interval of length p_i:
   under a uniform variate, index i has probability p_i *)
Theorem C16_law : forall (ps : list R) (r : R) (i : nat),
  (forall p, In p ps -> 0 <= p) -> 0 <= r ->
  (scan_R ps 0 0 r = Some i <-> (i < length ps)%nat /\ cumR ps i <= r < cumR ps (S i)).
Proof. exact scan_R_law. Qed.

Theorem C16_law_never_zero_R : forall (ps : list R) (r : R) (i : nat),
  (forall p, In p ps -> 0 <= p) -> 0 <= r ->
  scan_R ps 0 0 r = Some i -> 0 < nth i ps 0.
Proof. exact scan_R_never_zero. Qed.

(* Non-vacuity: the witness input of (c) meets every hypothesis of C16_never_zero, and the
   repaired rule returns index 1 (probability 1.0) on it; through the bit-level instance: probs
   [0.0; 1.0] then index 1. *)
Example C16_repaired_on_witness :
  cat_sample binop_nan_pl32 old_ps old_r = 1%nat /\
  fpos (nth (cat_sample binop_nan_pl32 old_ps old_r) old_ps fzero) = true /\
  cat_sample_old binop_nan_pl32 old_ps old_r = 0%nat /\
  cat32 [0%Z; 1065353216%Z] 0%Z = [0%Z; 1065353216%Z; 1%Z].
Proof.
  split; [exact (proj1 new_rule_witness)|].
  split; [exact (proj2 new_rule_witness)|].
  split; [exact (proj1 old_rule_witness)|].
  vm_compute; reflexivity.
Qed.

(* Non-vacuity of (d): ws = [0; 1; 3] gives probabilities [0; 1/4; 3/4]; r = 0 selects index 1 *)
Example C16_real_hypotheses_satisfiable :
  let ws := [0; 1; 3] in
  (forall w, In w ws -> 0 <= w) /\ 0 < sumlR ws /\
  scan_R (cat_new_R ws) 0 0 0 = Some 1%nat.
Proof.
  cbv zeta. split; [|split].
  - intros w [<-|[<-|[<-|[]]]]; Lra.lra.
  - simpl. Lra.lra.
  - unfold cat_new_R. simpl.
    destruct (Rlt_dec 0 (0 + 0 / (0 + (1 + (3 + 0))))) as [H|H].
    + exfalso. unfold Rdiv in H. rewrite Rmult_0_l in H. Lra.lra.
    + destruct (Rlt_dec 0 (0 + 0 / (0 + (1 + (3 + 0))) + 1 / (0 + (1 + (3 + 0))))) as [H'|H'];
        [reflexivity|].
      exfalso. apply H'. unfold Rdiv. rewrite Rmult_0_l.
      assert (0 < / (0 + (1 + (3 + 0)))) by (apply Rinv_0_lt_compat; Lra.lra). Lra.lra.
Qed.

(* (e) the correspondence check evaluates the constructor and the scan in exact rational
   arithmetic (sumlQ, cat_new_Q, scan_Q: normalised rationals, comparison by Qle_bool); mapped to
   the reals with Q2R that evaluation IS the real-number model of (d) on the rational inputs *)
From Coq Require Import QArith Qreals.
From MiniMcmc Require Import Proofs.Links.
Close Scope Q_scope.

Theorem C16_q_normalise_is_real :
  (forall l : list Q, Q2R (sumlQ l) = sumlR (map Q2R l)) /\
  (forall ws : list Q, ~ (sumlQ ws == 0)%Q -> map Q2R (cat_new_Q ws) = cat_new_R (map Q2R ws)).
Proof. exact (conj q2r_suml q2r_cat_new). Qed.

Theorem C16_q_scan_is_real : forall (ps : list Q) (i : nat) (cum r : Q),
  scan_Q ps i cum r = scan_R (map Q2R ps) i (Q2R cum) (Q2R r).
Proof. exact q2r_scan. Qed.


Print Assumptions C16_in_range.
Print Assumptions C16_never_zero.
Print Assumptions C16_old_rule_refuted.
Print Assumptions C16_normalised.
Print Assumptions C16_law.
Print Assumptions C16_law_never_zero_R.
Print Assumptions C16_q_normalise_is_real.
Print Assumptions C16_q_scan_is_real.
