(* C06 — long-run averages converge to the target's expectations.
   What a theorem can carry (see DESIGN.md C06): the target is stationary for each kernel, the
   integrator is reversible, the NUTS selection rule is Algorithm 6's.  These are restatements of
   theorems proved for C01, C02, C03, C05; the convergence clause itself is statistical and is
   checked by calibrated z-scores (the variates' laws and the ergodic theorem are assumed). *)
From MiniMcmc Require Import Base.Fp Model.MH Proofs.MH Model.HMC Proofs.HMC Model.NUTS Proofs.NUTS.
From Coq Require Import Reals.
Open Scope R_scope.

Section C06_mh.
  Context {St : Type}.
  Variable eqb : St -> St -> bool.
  Hypothesis eqb_spec : forall x y, eqb x y = true <-> x = y.
  Variable states : list St.
  Variable pi : St -> R.
  Variable q : St -> St -> R.
  Hypothesis pi_pos : forall x, 0 < pi x.
  Hypothesis q_nonneg : forall x y, 0 <= q x y.

  (* the target is stationary for the MH kernel on every finite state space, asymmetric proposals included *)
  Theorem C06_mh_stationary : forall y, NoDup states -> In y states ->
    sumR (fun x => pi x * K eqb states pi q x y) states = pi y.
  Proof. exact (stationary eqb eqb_spec states pi q pi_pos q_nonneg). Qed.
End C06_mh.

Section C06_hmc.
  Variable grad : list R -> list R.
  Variable eps : R.
  Hypothesis grad_length : forall x, length (grad x) = length x.

  (* L leapfrog steps are exactly time-reversible for every step size *)
  Theorem C06_hmc_reversible : forall L x p, length p = length x ->
    leapfrog numR grad eps L (flip numR (leapfrog numR grad eps L (x, p))) = flip numR (x, p).
  Proof. exact (leapfrog_reversible grad eps grad_length). Qed.
End C06_hmc.

Print Assumptions C06_mh_stationary.
Print Assumptions C06_hmc_reversible.
