(* Proofs about the ESS model (Model/Stats.v: autocov, circ_autocov, geyer, tau_of_rho, ess_tau,
   ess) instantiated at the real numbers.  Statements are re-exported in Properties/C12.v. *)
From MiniMcmc Require Import Base.Num Base.Util Model.Stats.
From Coq Require Import Reals Lra Lia Permutation.
Open Scope R_scope.

(* ------------------------------------------------------------------ sums of reals *)
Definition sumR (l : list R) : R := fold_right Rplus 0 l.

Lemma fold_left_Rplus : forall (l : list R) (a : R), fold_left Rplus l a = a + sumR l.
Proof.
  induction l as [|x l IH]; intros a; simpl; [lra|]. rewrite IH. lra.
Qed.

Lemma sumK_R : forall l : list R, sumK numR l = sumR l.
Proof.
  intros l. unfold sumK. change (fold_left Rplus l 0 = sumR l).
  rewrite fold_left_Rplus. lra.
Qed.

Lemma meanK_R : forall l : list R, meanK numR l = sumR l / IZR (Z.of_nat (length l)).
Proof. intros l. unfold meanK. rewrite sumK_R. reflexivity. Qed.

Lemma IZR_nat_neq0 : forall n : nat, n <> 0%nat -> IZR (Z.of_nat n) <> 0.
Proof. intros n Hn. apply not_0_IZR. lia. Qed.

Lemma sumR_app : forall l1 l2, sumR (l1 ++ l2) = sumR l1 + sumR l2.
Proof. induction l1 as [|x l1 IH]; intros l2; simpl; [lra|]. rewrite IH. lra. Qed.

Lemma sumR_map_ext_in {A} (f g : A -> R) (l : list A) :
  (forall x, In x l -> f x = g x) -> sumR (map f l) = sumR (map g l).
Proof. intros H. f_equal. apply map_ext_in. exact H. Qed.

Lemma sumR_map_zero {A} (f : A -> R) (l : list A) :
  (forall x, In x l -> f x = 0) -> sumR (map f l) = 0.
Proof.
  induction l as [|x l IH]; intros H; simpl; [reflexivity|].
  rewrite (H x) by (left; reflexivity). rewrite IH; [lra|].
  intros y Hy. apply H. right. exact Hy.
Qed.

Lemma sumR_map_scal {A} (k : R) (f : A -> R) (l : list A) :
  sumR (map (fun x => k * f x) l) = k * sumR (map f l).
Proof. induction l as [|x l IH]; simpl; [lra|]. rewrite IH. lra. Qed.

Lemma sumR_scal (k : R) (l : list R) : sumR (map (fun x => k * x) l) = k * sumR l.
Proof. induction l as [|x l IH]; simpl; [lra|]. rewrite IH. lra. Qed.

Lemma sumR_rev : forall l, sumR (rev l) = sumR l.
Proof.
  induction l as [|x l IH]; simpl; [reflexivity|].
  rewrite sumR_app, IH. simpl. lra.
Qed.

Lemma sumR_perm : forall l l', Permutation l l' -> sumR l = sumR l'.
Proof.
  intros l l' H. induction H as [|x l l' H IH|x y l|l l' l'' H1 IH1 H2 IH2]; simpl; try lra.
Qed.

Lemma sumR_seq_S (f : nat -> R) (n : nat) :
  sumR (map f (seq 0 (S n))) = f 0%nat + sumR (map (fun s => f (S s)) (seq 0 n)).
Proof. simpl. rewrite <- seq_shift, map_map. reflexivity. Qed.

Lemma sumR_seq_last (f : nat -> R) (n : nat) :
  sumR (map f (seq 0 (S n))) = sumR (map f (seq 0 n)) + f n.
Proof. rewrite seq_S, map_app, sumR_app. simpl. lra. Qed.

Lemma sumR_seq_rev : forall (m : nat) (f : nat -> R),
  sumR (map f (seq 0 m)) = sumR (map (fun s => f (m - 1 - s)%nat) (seq 0 m)).
Proof.
  induction m as [|m IH]; intros f; [reflexivity|].
  rewrite sumR_seq_S. rewrite sumR_seq_last.
  rewrite (IH (fun s => f (S s))).
  replace (S m - 1 - m)%nat with 0%nat by lia.
  rewrite Rplus_comm. f_equal.
  apply sumR_map_ext_in. intros s Hs. apply in_seq in Hs. f_equal. lia.
Qed.

(* ------------------------------------------------------------------ dot, skipn *)
Lemma nth_skipn_add {A} : forall (t : nat) (l : list A) (s : nat) (d : A),
  nth s (skipn t l) d = nth (t + s) l d.
Proof.
  induction t as [|t IH]; intros l s d; [reflexivity|].
  destruct l as [|x l]; simpl.
  - destruct s; reflexivity.
  - apply IH.
Qed.

Lemma dot_sum : forall a b : list R,
  dot numR a b =
  sumR (map (fun s => nth s a 0 * nth s b 0) (seq 0 (Nat.min (length a) (length b)))).
Proof.
  induction a as [|x a IH]; intros [|y b]; try reflexivity.
  change (dot numR (x :: a) (y :: b)) with (x * y + dot numR a b).
  change (Nat.min (length (x :: a)) (length (y :: b))) with (S (Nat.min (length a) (length b))).
  rewrite sumR_seq_S. rewrite IH. reflexivity.
Qed.

Lemma dot_skipn_sum : forall (cs : list R) (t : nat),
  dot numR cs (skipn t cs) =
  sumR (map (fun s => nth s cs 0 * nth (s + t) cs 0) (seq 0 (length cs - t))).
Proof.
  intros cs t. rewrite dot_sum, skipn_length.
  replace (Nat.min (length cs) (length cs - t)) with (length cs - t)%nat by lia.
  apply sumR_map_ext_in. intros s _. rewrite nth_skipn_add. f_equal. f_equal. lia.
Qed.

Lemma dot_map_scal : forall (k : R) (u v : list R),
  dot numR (map (fun c => k * c) u) (map (fun c => k * c) v) = k * k * dot numR u v.
Proof.
  induction u as [|x u IH]; intros [|y v]; simpl; try lra.
  rewrite IH. lra.
Qed.

Lemma dot_self_map : forall (f : R -> R) (xs : list R),
  dot numR (map f xs) (map f xs) = sumR (map (fun x => f x * f x) xs).
Proof. induction xs as [|x xs IH]; simpl; [reflexivity|]. rewrite IH. reflexivity. Qed.

(* ------------------------------------------------------------------ (1) circular = brute force *)
Lemma nth_repeat0 : forall m k, nth k (repeat 0 m) 0 = 0.
Proof. induction m as [|m IH]; intros [|k]; simpl; auto. Qed.

Lemma nth_pad : forall (cs : list R) (m k : nat), nth k (cs ++ repeat 0 m) 0 = nth k cs 0.
Proof.
  intros cs m k. destruct (Nat.lt_ge_cases k (length cs)) as [H|H].
  - apply app_nth1. exact H.
  - rewrite app_nth2 by lia. rewrite (nth_overflow cs) by lia. apply nth_repeat0.
Qed.

Lemma circ_sum : forall (cs : list R) (m P t n : nat),
  length cs = n -> (2 * n - 1 <= P)%nat -> (t < n)%nat ->
  sumR (map (fun s => nth s (cs ++ repeat 0 m) 0 * nth ((s + t) mod P) (cs ++ repeat 0 m) 0)
            (seq 0 P))
  = sumR (map (fun s => nth s cs 0 * nth (s + t) cs 0) (seq 0 (n - t))).
Proof.
  intros cs m P t n Hn HP Ht.
  assert (E : seq 0 P = seq 0 (n - t) ++ seq (n - t) (P - (n - t))).
  { rewrite <- seq_app. f_equal. lia. }
  rewrite E, map_app, sumR_app.
  rewrite (sumR_map_zero _ (seq (n - t) (P - (n - t)))).
  - rewrite Rplus_0_r. apply sumR_map_ext_in. intros s Hs. apply in_seq in Hs.
    rewrite !nth_pad. rewrite Nat.mod_small by lia. reflexivity.
  - intros s Hs. apply in_seq in Hs. rewrite !nth_pad.
    destruct (Nat.lt_ge_cases s n) as [Hs'|Hs'].
    + rewrite Nat.mod_small by lia. rewrite (nth_overflow cs (n:=s + t)) by lia. lra.
    + rewrite (nth_overflow cs (n:=s)) by lia. lra.
Qed.

Lemma circ_autocov_nth : forall (P : nat) (xs : list R) (t : nat),
  (2 * length xs - 1 <= P)%nat -> (t < length xs)%nat ->
  nth t (circ_autocov numR P xs) 0 = nth t (autocov numR xs) 0.
Proof.
  intros P xs t HP Ht. unfold circ_autocov, autocov. cbv zeta.
  rewrite !nth_map_seq by exact Ht.
  f_equal. rewrite sumK_R, dot_skipn_sum, map_length.
  apply (circ_sum (map (fun x => sub numR x (meanK numR xs)) xs) (P - length xs) P t (length xs)).
  - apply map_length.
  - exact HP.
  - exact Ht.
Qed.

Lemma autocov_length : forall xs : list R, length (autocov numR xs) = length xs.
Proof. intros xs. unfold autocov. cbv zeta. rewrite map_length, seq_length. reflexivity. Qed.

Lemma circ_autocov_length : forall P (xs : list R), length (circ_autocov numR P xs) = length xs.
Proof. intros P xs. unfold circ_autocov. cbv zeta. rewrite map_length, seq_length. reflexivity. Qed.

Lemma circ_autocov_eq : forall (P : nat) (xs : list R),
  (2 * length xs - 1 <= P)%nat -> circ_autocov numR P xs = autocov numR xs.
Proof.
  intros P xs HP. apply (list_eq_nth 0).
  - rewrite circ_autocov_length, autocov_length. reflexivity.
  - intros t Ht. rewrite circ_autocov_length in Ht. apply circ_autocov_nth; assumption.
Qed.

(* ------------------------------------------------------------------ core forms of withinvar / ess_tau *)
Definition hd_len {A} (hs : list (list A)) : nat :=
  match hs with x :: _ => length x | [] => 0%nat end.

(* withinvar as a function of (number of chains, chain length, chain means, chain variances) *)
Definition wv_core (c n : nat) (means vars : list R) : R * R :=
  let overall := meanK numR means in
  let b := sumK numR (map (fun mu => sqK numR (mu - overall)) means)
           * (IZR (Z.of_nat n) / IZR (Z.of_nat (c - 1))) in
  let w := meanK numR vars in
  let v := (IZR (Z.of_nat n) - 1) / IZR (Z.of_nat n) * w + b / IZR (Z.of_nat n) in
  (w, v).

Lemma withinvar_core : forall hs : list (list R),
  withinvar numR hs =
  wv_core (length hs) (hd_len hs) (map (meanK numR) hs) (map (var_n numR) hs).
Proof. intros hs. reflexivity. Qed.

(* the autocorrelation estimate rho_t = 1 - (W - mean_chains autocov_t) / var+, t < n *)
Definition rho_core (w v : R) (n : nat) (acs : list (list R)) : list R :=
  map (fun a => 1 - (w - a) / v)
      (map (fun t => meanK numR (map (fun ac => nth t ac 0) acs)) (seq 0 n)).

Definition rho_list (hs : list (list R)) : list R :=
  rho_core (fst (withinvar numR hs)) (snd (withinvar numR hs)) (hd_len hs)
           (map (autocov numR) hs).

Lemma ess_tau_rho : forall hs : list (list R), ess_tau numR hs = tau_of_rho numR (rho_list hs).
Proof. intros hs. reflexivity. Qed.

Lemma rho_list_length : forall hs, length (rho_list hs) = hd_len hs.
Proof. intros hs. unfold rho_list, rho_core. rewrite !map_length, seq_length. reflexivity. Qed.

Lemma rho_list_nth : forall hs t, (t < hd_len hs)%nat ->
  nth t (rho_list hs) 0 =
  1 - (fst (withinvar numR hs)
       - meanK numR (map (fun h => nth t (autocov numR h) 0) hs)) / snd (withinvar numR hs).
Proof.
  intros hs t Ht. unfold rho_list, rho_core. rewrite map_map.
  rewrite nth_map_seq by exact Ht. rewrite map_map. reflexivity.
Qed.

(* ------------------------------------------------------------------ (2) lag 0 *)
Lemma autocov_0 : forall xs : list R, xs <> [] -> nth 0 (autocov numR xs) 0 = var_n numR xs.
Proof.
  intros xs H. destruct xs as [|x xs]; [congruence|].
  unfold autocov, var_n. cbv zeta.
  rewrite nth_map_seq by (simpl; lia).
  rewrite skipn_O, dot_self_map, sumK_R. reflexivity.
Qed.

Lemma rho_list_0 : forall hs : list (list R),
  hs <> [] -> (forall h, In h hs -> h <> []) ->
  snd (withinvar numR hs) <> 0 ->
  nth 0 (rho_list hs) 0 = 1.
Proof.
  intros hs Hne Hall _.
  assert (Hlen : (0 < hd_len hs)%nat).
  { destruct hs as [|h hs]; [congruence|]. simpl.
    assert (Hh : h <> []) by (apply Hall; left; reflexivity).
    destruct h; [congruence|simpl; lia]. }
  rewrite rho_list_nth by exact Hlen.
  assert (E : map (fun h => nth 0 (autocov numR h) 0) hs = map (var_n numR) hs).
  { apply map_ext_in. intros h Hh. apply autocov_0. apply Hall. exact Hh. }
  rewrite E.
  change (fst (withinvar numR hs)) with (meanK numR (map (var_n numR) hs)).
  unfold Rdiv. ring.
Qed.

(* ------------------------------------------------------------------ (3) Geyer's rule *)
(* pair sums P_j = rho_{2j} + rho_{2j+1} *)
Fixpoint pairsums (rho : list R) : list R :=
  match rho with r0 :: r1 :: rest => (r0 + r1) :: pairsums rest | _ => [] end.
(* the leading strictly positive entries *)
Fixpoint pos_prefix (ps : list R) : list R :=
  match ps with
  | p :: ps' => if Rle_dec p 0 then [] else p :: pos_prefix ps'
  | [] => []
  end.
(* running minimum started at mn: q_j = min (mn, p_0, ..., p_j) *)
Fixpoint runmin (mn : R) (ps : list R) : list R :=
  match ps with p :: ps' => Rmin mn p :: runmin (Rmin mn p) ps' | [] => [] end.

Definition geyer_terms (rho : list R) (mn : R) : list R := runmin mn (pos_prefix (pairsums rho)).

Lemma min_sel : forall mn p : R, (if nltb numR mn p then mn else p) = Rmin mn p.
Proof. intros mn p. unfold Rmin. simpl. destruct (Rlt_dec mn p), (Rle_dec mn p); lra. Qed.

Lemma geyer_spec : forall (fuel : nat) (rho : list R) (mn out : R),
  (length rho <= 2 * fuel)%nat ->
  geyer numR fuel rho mn out = out + sumR (geyer_terms rho mn).
Proof.
  induction fuel as [|f IH]; intros rho mn out Hf.
  - destruct rho as [|r0 rho]; [|simpl in Hf; lia]. unfold geyer_terms. simpl. lra.
  - destruct rho as [|r0 [|r1 rest]]; try (unfold geyer_terms; simpl; lra).
    simpl in Hf.
    change (geyer numR (S f) (r0 :: r1 :: rest) mn out) with
      (if nleb numR (r0 + r1) 0 then out
       else geyer numR f rest (if nltb numR mn (r0 + r1) then mn else r0 + r1)
                  (out + (if nltb numR mn (r0 + r1) then mn else r0 + r1))).
    rewrite !min_sel. unfold geyer_terms. simpl.
    destruct (Rle_dec (r0 + r1) 0) as [Hle|Hgt]; [simpl; lra|].
    rewrite IH by lia. unfold geyer_terms. simpl. lra.
Qed.

Lemma geyer_fuel : forall (fuel : nat) (rho : list R) (mn out : R),
  (length rho <= fuel)%nat ->
  geyer numR fuel rho mn out = geyer numR (length rho) rho mn out.
Proof. intros fuel rho mn out H. rewrite !geyer_spec by lia. reflexivity. Qed.

Lemma tau_of_rho_spec : forall rho : list R,
  tau_of_rho numR rho = 2 * sumR (geyer_terms rho (hd 0 (pairsums rho))) - 1.
Proof.
  intros rho.
  assert (Hl : (length rho <= 2 * length rho)%nat) by lia.
  unfold tau_of_rho. cbv zeta. rewrite geyer_spec by exact Hl.
  change (ofN numR 2) with 2. change (one numR) with 1. change (zero numR) with 0.
  change (mul numR) with Rmult. change (sub numR) with Rminus.
  destruct rho as [|r0 [|r1 rest]]; simpl hd; change (add numR) with Rplus; lra.
Qed.

(* induction two elements at a time *)
Lemma pair_ind (Q : list R -> Prop) :
  Q [] -> (forall x, Q [x]) -> (forall x y l, Q l -> Q (x :: y :: l)) -> forall l, Q l.
Proof.
  intros H0 H1 H2 l.
  assert (H : Q l /\ forall x, Q (x :: l)).
  { induction l as [|y l [IHa IHb]]; split; auto. }
  exact (proj1 H).
Qed.

Lemma pairsums_length : forall rho, length (pairsums rho) = Nat.div2 (length rho).
Proof.
  apply pair_ind; [reflexivity|reflexivity|].
  intros x y l IH. simpl. rewrite IH. reflexivity.
Qed.

Lemma pairsums_nth : forall rho j, (j < Nat.div2 (length rho))%nat ->
  nth j (pairsums rho) 0 = nth (2 * j) rho 0 + nth (2 * j + 1) rho 0.
Proof.
  apply (pair_ind (fun rho => forall j, (j < Nat.div2 (length rho))%nat ->
    nth j (pairsums rho) 0 = nth (2 * j) rho 0 + nth (2 * j + 1) rho 0)).
  - intros j Hj. simpl in Hj. lia.
  - intros x j Hj. simpl in Hj. lia.
  - intros x y l IH [|j] Hj; [reflexivity|].
    simpl in Hj.
    change (nth (S j) (pairsums (x :: y :: l)) 0) with (nth j (pairsums l) 0).
    rewrite (IH j) by lia.
    replace (2 * S j)%nat with (S (S (2 * j))) by lia.
    replace (S (S (2 * j)) + 1)%nat with (S (S (2 * j + 1))) by lia.
    reflexivity.
Qed.

Definition allpos (l : list R) : Prop := Forall (fun p => 0 < p) l.

Lemma pos_prefix_spec : forall ps : list R,
  exists k : nat, (k <= length ps)%nat /\ pos_prefix ps = firstn k ps /\
    (forall j, (j < k)%nat -> 0 < nth j ps 0) /\
    ((k < length ps)%nat -> nth k ps 0 <= 0).
Proof.
  induction ps as [|p ps [k [Hk [E [Hpos Hstop]]]]].
  - exists 0%nat. split; [simpl; lia|]. split; [reflexivity|].
    split; intros; simpl in *; lia.
  - simpl. destruct (Rle_dec p 0) as [Hle|Hgt].
    + exists 0%nat. split; [lia|]. split; [reflexivity|].
      split; [intros j Hj; lia|]. intros _. exact Hle.
    + exists (S k). split; [lia|]. split; [simpl; rewrite E; reflexivity|].
      split.
      * intros [|j] Hj; simpl; [lra|]. apply Hpos. lia.
      * intros H. simpl. apply Hstop. lia.
Qed.

Lemma pos_prefix_allpos : forall ps, allpos (pos_prefix ps).
Proof.
  induction ps as [|p ps IH]; simpl; [constructor|].
  destruct (Rle_dec p 0); constructor; [lra|exact IH].
Qed.

Lemma runmin_length : forall ps mn, length (runmin mn ps) = length ps.
Proof. induction ps as [|p ps IH]; intros mn; simpl; auto. Qed.

(* q_j = min (mn, p_0, ..., p_j) *)
Lemma runmin_nth : forall ps mn j, (j < length ps)%nat ->
  nth j (runmin mn ps) 0 = fold_left Rmin (firstn (S j) ps) mn.
Proof.
  induction ps as [|p ps IH]; intros mn j Hj; simpl in Hj; [lia|].
  destruct j as [|j]; [destruct ps; reflexivity|].
  change (runmin mn (p :: ps)) with (Rmin mn p :: runmin (Rmin mn p) ps).
  change (firstn (S (S j)) (p :: ps)) with (p :: firstn (S j) ps).
  simpl nth. simpl fold_left. apply IH. lia.
Qed.

Lemma runmin_allpos : forall ps mn, 0 < mn -> allpos ps -> allpos (runmin mn ps).
Proof.
  induction ps as [|p ps IH]; intros mn Hmn Hps; simpl; [constructor|].
  inversion Hps as [|p' ps' Hp Hps']; subst.
  assert (0 < Rmin mn p) by (apply Rmin_glb_lt; assumption).
  constructor; [assumption|]. apply IH; assumption.
Qed.

Lemma runmin_le_start : forall ps mn j, (j < length ps)%nat -> nth j (runmin mn ps) 0 <= mn.
Proof.
  induction ps as [|p ps IH]; intros mn j Hj; simpl in Hj; [lia|].
  destruct j as [|j]; simpl.
  - apply Rmin_l.
  - eapply Rle_trans; [apply IH; lia|apply Rmin_l].
Qed.

Lemma runmin_le_term : forall ps mn j, (j < length ps)%nat ->
  nth j (runmin mn ps) 0 <= nth j ps 0.
Proof.
  induction ps as [|p ps IH]; intros mn j Hj; simpl in Hj; [lia|].
  destruct j as [|j]; simpl.
  - apply Rmin_r.
  - apply IH. lia.
Qed.

Lemma runmin_mono : forall ps mn j, (S j < length ps)%nat ->
  nth (S j) (runmin mn ps) 0 <= nth j (runmin mn ps) 0.
Proof.
  induction ps as [|p ps IH]; intros mn j Hj; simpl in Hj; [lia|].
  destruct j as [|j].
  - change (nth 1 (runmin mn (p :: ps)) 0) with (nth 0 (runmin (Rmin mn p) ps) 0).
    change (nth 0 (runmin mn (p :: ps)) 0) with (Rmin mn p).
    apply runmin_le_start. lia.
  - change (nth (S (S j)) (runmin mn (p :: ps)) 0) with (nth (S j) (runmin (Rmin mn p) ps) 0).
    change (nth (S j) (runmin mn (p :: ps)) 0) with (nth j (runmin (Rmin mn p) ps) 0).
    apply IH. lia.
Qed.

(* ------------------------------------------------------------------ (4) the ESS formula *)
Lemma ess_formula : forall (hs : list (list R)) (N : nat),
  hs <> [] -> (forall h, In h hs -> length h = N) ->
  ess numR hs = IZR (Z.of_nat (length hs)) * IZR (Z.of_nat N) / ess_tau numR hs.
Proof.
  intros hs N Hne Hall. destruct hs as [|h hs]; [congruence|].
  rewrite <- (Hall h) by (left; reflexivity). reflexivity.
Qed.

(* ------------------------------------------------------------------ shared facts on means *)
Lemma meanK_scal {A} (k : R) (f : A -> R) (l : list A) :
  meanK numR (map (fun x => k * f x) l) = k * meanK numR (map f l).
Proof. rewrite !meanK_R, !map_length, sumR_map_scal. change (T numR) with R. unfold Rdiv. ring. Qed.

Lemma meanK_perm : forall l l' : list R, Permutation l l' -> meanK numR l = meanK numR l'.
Proof.
  intros l l' H. rewrite !meanK_R. rewrite (sumR_perm l l' H), (Permutation_length H). reflexivity.
Qed.

Lemma hd_len_map {A B} (f : list A -> list B) (hs : list (list A)) :
  (forall h, length (f h) = length h) -> hd_len (map f hs) = hd_len hs.
Proof. intros H. destruct hs as [|h hs]; simpl; auto. Qed.

Lemma hd_len_common {A} (hs : list (list A)) (N : nat) :
  hs <> [] -> (forall h, In h hs -> length h = N) -> hd_len hs = N.
Proof. intros Hne H. destruct hs as [|h hs]; [congruence|]. simpl. apply H. left. reflexivity. Qed.

(* ------------------------------------------------------------------ (5) time reversal *)
Lemma meanK_rev : forall l : list R, meanK numR (rev l) = meanK numR l.
Proof. intros l. rewrite !meanK_R, sumR_rev, rev_length. reflexivity. Qed.

Lemma dot_skipn_rev : forall (cs : list R) (t : nat),
  dot numR (rev cs) (skipn t (rev cs)) = dot numR cs (skipn t cs).
Proof.
  intros cs t. rewrite !dot_skipn_sum, rev_length.
  rewrite (sumR_seq_rev (length cs - t)).
  apply sumR_map_ext_in. intros s Hs. apply in_seq in Hs.
  rewrite !rev_nth by lia. rewrite Rmult_comm. f_equal; f_equal; lia.
Qed.

Lemma autocov_rev : forall xs : list R, autocov numR (rev xs) = autocov numR xs.
Proof.
  intros xs. unfold autocov. cbv zeta. rewrite meanK_rev, rev_length, map_rev.
  apply map_ext. intros t. rewrite dot_skipn_rev. reflexivity.
Qed.

Lemma var_n_rev : forall xs : list R, var_n numR (rev xs) = var_n numR xs.
Proof.
  intros xs. unfold var_n. cbv zeta.
  rewrite meanK_rev, rev_length, map_rev, !sumK_R, sumR_rev. reflexivity.
Qed.

Lemma withinvar_rev : forall hs : list (list R),
  withinvar numR (map (@rev R) hs) = withinvar numR hs.
Proof.
  intros hs. rewrite !withinvar_core, map_length, !map_map.
  rewrite (hd_len_map (@rev R) hs (@rev_length R)).
  rewrite (map_ext _ _ meanK_rev), (map_ext _ _ var_n_rev). reflexivity.
Qed.

Lemma ess_tau_rev : forall hs : list (list R),
  ess_tau numR (map (@rev R) hs) = ess_tau numR hs.
Proof.
  intros hs. rewrite !ess_tau_rho. f_equal. unfold rho_list.
  rewrite withinvar_rev, (hd_len_map (@rev R) hs (@rev_length R)), map_map.
  rewrite (map_ext _ _ autocov_rev). reflexivity.
Qed.

(* ------------------------------------------------------------------ (6) affine rescaling *)
Lemma sumR_affine : forall (a b : R) (l : list R),
  sumR (map (fun x => a * x + b) l) = a * sumR l + IZR (Z.of_nat (length l)) * b.
Proof.
  intros a b l. induction l as [|x l IH].
  - simpl. lra.
  - change (length (x :: l)) with (S (length l)). rewrite Nat2Z.inj_succ, succ_IZR.
    simpl. rewrite IH. lra.
Qed.

Lemma meanK_affine : forall (a b : R) (l : list R), l <> [] ->
  meanK numR (map (fun x => a * x + b) l) = a * meanK numR l + b.
Proof.
  intros a b l Hl. rewrite !meanK_R, map_length, sumR_affine. change (T numR) with R. field.
  apply IZR_nat_neq0. destruct l; simpl; congruence.
Qed.

Lemma autocov_affine : forall (a b : R) (xs : list R),
  autocov numR (map (fun x => a * x + b) xs) = map (fun c => a * a * c) (autocov numR xs).
Proof.
  intros a b xs. destruct (list_eq_dec Req_EM_T xs []) as [->|Hne]; [reflexivity|].
  assert (E : map (fun x => sub numR x (meanK numR (map (fun x => a * x + b) xs)))
                  (map (fun x => a * x + b) xs)
              = map (fun c => a * c) (map (fun x => sub numR x (meanK numR xs)) xs)).
  { rewrite meanK_affine by exact Hne. rewrite !map_map. apply map_ext. intros x. simpl. ring. }
  unfold autocov. cbv zeta. rewrite E, map_length. rewrite (map_map _ (fun c : R => a * a * c)).
  apply map_ext. intros t. rewrite skipn_map, dot_map_scal. simpl. unfold Rdiv. ring.
Qed.

Lemma nth_map_scal : forall (k : R) (l : list R) (t : nat),
  nth t (map (fun c => k * c) l) 0 = k * nth t l 0.
Proof.
  intros k l. induction l as [|x l IH]; intros [|t]; simpl; try ring. apply IH.
Qed.

Lemma var_n_affine : forall (a b : R) (xs : list R), xs <> [] ->
  var_n numR (map (fun x => a * x + b) xs) = a * a * var_n numR xs.
Proof.
  intros a b xs Hne. rewrite <- !autocov_0.
  - rewrite autocov_affine. apply nth_map_scal.
  - exact Hne.
  - destruct xs; simpl; congruence.
Qed.

Lemma wv_core_affine : forall (a b : R) (c n : nat) (means vars : list R), means <> [] ->
  wv_core c n (map (fun m => a * m + b) means) (map (fun v => a * a * v) vars)
  = (a * a * fst (wv_core c n means vars), a * a * snd (wv_core c n means vars)).
Proof.
  intros a b c n means vars Hne. cbv beta iota zeta delta [wv_core fst snd].
  rewrite (meanK_affine a b means Hne).
  assert (E1 : sumK numR (map (fun mu => sqK numR (mu - (a * meanK numR means + b)))
                              (map (fun m => a * m + b) means))
               = a * a * sumK numR (map (fun mu => sqK numR (mu - meanK numR means)) means)).
  { rewrite !sumK_R, map_map, <- sumR_map_scal. apply sumR_map_ext_in.
    intros mu _. unfold sqK. simpl. ring. }
  assert (E2 : meanK numR (map (fun v => a * a * v) vars) = a * a * meanK numR vars).
  { rewrite (meanK_scal (a * a) (fun v => v) vars), map_id. reflexivity. }
  rewrite E1, E2. f_equal; unfold Rdiv; ring.
Qed.

Lemma withinvar_affine : forall (a b : R) (hs : list (list R)),
  hs <> [] -> (forall h, In h hs -> h <> []) ->
  withinvar numR (map (map (fun x => a * x + b)) hs)
  = (a * a * fst (withinvar numR hs), a * a * snd (withinvar numR hs)).
Proof.
  intros a b hs Hne Hall. rewrite !withinvar_core, map_length.
  rewrite (hd_len_map (map (fun x => a * x + b)) hs) by (intros h; apply map_length).
  assert (E1 : map (meanK numR) (map (map (fun x => a * x + b)) hs)
               = map (fun m => a * m + b) (map (meanK numR) hs)).
  { rewrite !map_map. apply map_ext_in. intros h Hh. apply meanK_affine. apply Hall. exact Hh. }
  assert (E2 : map (var_n numR) (map (map (fun x => a * x + b)) hs)
               = map (fun v => a * a * v) (map (var_n numR) hs)).
  { rewrite !map_map. apply map_ext_in. intros h Hh. apply var_n_affine. apply Hall. exact Hh. }
  rewrite E1, E2. apply wv_core_affine. destruct hs; simpl; congruence.
Qed.

Lemma rho_core_scal : forall (k w v : R) (n : nat) (acs : list (list R)),
  k <> 0 -> v <> 0 ->
  rho_core (k * w) (k * v) n (map (map (fun c => k * c)) acs) = rho_core w v n acs.
Proof.
  intros k w v n acs Hk Hv. unfold rho_core. rewrite !map_map.
  apply map_ext. intros t. rewrite map_map.
  rewrite (map_ext _ (fun ac => k * nth t ac 0)) by (intros ac; apply nth_map_scal).
  rewrite (meanK_scal k (fun ac => nth t ac 0) acs). field. split; assumption.
Qed.

Lemma ess_tau_affine : forall (a b : R) (hs : list (list R)) (N : nat),
  a <> 0 -> (forall h, In h hs -> length h = N) ->
  snd (withinvar numR hs) <> 0 ->
  ess_tau numR (map (map (fun x => a * x + b)) hs) = ess_tau numR hs.
Proof.
  intros a b hs N Ha Hall Hv.
  destruct hs as [|h0 hs0] eqn:Ehs; [reflexivity|]. rewrite <- Ehs in *.
  assert (Hne : hs <> []) by (rewrite Ehs; discriminate).
  assert (Hhd : hd_len hs = N) by (apply hd_len_common; assumption).
  assert (Hhd' : hd_len (map (map (fun x => a * x + b)) hs) = N).
  { rewrite hd_len_map by (intros h; apply map_length). exact Hhd. }
  rewrite !ess_tau_rho. f_equal.
  destruct N as [|N'].
  - (* chains of length 0: both autocorrelation lists are empty *)
    assert (L1 := rho_list_length hs). assert (L2 := rho_list_length (map (map (fun x => a * x + b)) hs)).
    rewrite Hhd in L1. rewrite Hhd' in L2.
    apply length_zero_iff_nil in L1. apply length_zero_iff_nil in L2. rewrite L1, L2. reflexivity.
  - assert (Hall' : forall h, In h hs -> h <> []).
    { intros h Hh E. apply Hall in Hh. rewrite E in Hh. simpl in Hh. lia. }
    unfold rho_list. rewrite Hhd', Hhd.
    rewrite (withinvar_affine a b hs Hne Hall'). simpl fst. simpl snd.
    assert (E : map (autocov numR) (map (map (fun x => a * x + b)) hs)
                = map (map (fun c => a * a * c)) (map (autocov numR) hs)).
    { rewrite !map_map. apply map_ext. intros h. apply autocov_affine. }
    rewrite E. apply rho_core_scal; [|exact Hv].
    apply Rmult_integral_contrapositive_currified; assumption.
Qed.

(* ------------------------------------------------------------------ (7) chain permutation *)
Lemma wv_core_perm : forall (c n : nat) (means means' vars vars' : list R),
  Permutation means means' -> Permutation vars vars' ->
  wv_core c n means' vars' = wv_core c n means vars.
Proof.
  intros c n means means' vars vars' Hm Hv. unfold wv_core. cbv zeta.
  rewrite <- (meanK_perm means means' Hm), <- (meanK_perm vars vars' Hv).
  rewrite !sumK_R.
  rewrite <- (sumR_perm _ _ (Permutation_map (fun mu => sqK numR (mu - meanK numR means)) Hm)).
  reflexivity.
Qed.

Lemma rho_core_perm : forall (w v : R) (n : nat) (acs acs' : list (list R)),
  Permutation acs acs' -> rho_core w v n acs' = rho_core w v n acs.
Proof.
  intros w v n acs acs' H. unfold rho_core. f_equal. apply map_ext. intros t.
  symmetry. apply meanK_perm. apply Permutation_map. exact H.
Qed.

Lemma ess_tau_perm : forall (hs hs' : list (list R)) (N : nat),
  Permutation hs hs' -> (forall h, In h hs -> length h = N) ->
  ess_tau numR hs' = ess_tau numR hs.
Proof.
  intros hs hs' N HP Hall.
  destruct hs as [|h0 hs0] eqn:Ehs.
  - apply Permutation_nil in HP. rewrite HP. reflexivity.
  - rewrite <- Ehs in *.
    assert (Hne : hs <> []) by (rewrite Ehs; discriminate).
    assert (Hne' : hs' <> []).
    { intros E. rewrite E in HP. apply Permutation_sym, Permutation_nil in HP. contradiction. }
    assert (Hall' : forall h, In h hs' -> length h = N).
    { intros h Hh. apply Hall. apply (Permutation_in h (Permutation_sym HP)). exact Hh. }
    assert (Hhd : hd_len hs = N) by (apply hd_len_common; assumption).
    assert (Hhd' : hd_len hs' = N) by (apply hd_len_common; assumption).
    assert (Hwv : withinvar numR hs' = withinvar numR hs).
    { rewrite !withinvar_core, Hhd, Hhd', <- (Permutation_length HP).
      apply wv_core_perm; apply Permutation_map; exact HP. }
    rewrite !ess_tau_rho. f_equal. unfold rho_list. rewrite Hwv, Hhd, Hhd'.
    apply rho_core_perm. apply Permutation_map. exact HP.
Qed.

(* ------------------------------------------------------------------ explicit shape of Geyer's terms *)
(* the j-th pair sum, read directly off the autocorrelation list *)
Definition pair_sum (rho : list R) (j : nat) : R := nth (2 * j) rho 0 + nth (2 * j + 1) rho 0.

Lemma firstn_map_nth : forall (l : list R) (m : nat), (m <= length l)%nat ->
  firstn m l = map (fun i => nth i l 0) (seq 0 m).
Proof.
  induction l as [|x l IH]; intros [|m] Hm; simpl in Hm; try reflexivity; try lia.
  simpl. f_equal. rewrite <- seq_shift, map_map. apply IH. lia.
Qed.

Lemma nth_firstn_lt : forall (l : list R) (k j : nat), (j < k)%nat ->
  nth j (firstn k l) 0 = nth j l 0.
Proof.
  induction l as [|x l IH]; intros [|k] [|j] Hj; simpl; try reflexivity; try lia.
  apply IH. lia.
Qed.

Lemma geyer_terms_shape : forall (rho : list R) (mn : R),
  exists k : nat,
    (k <= Nat.div2 (length rho))%nat /\
    (forall j, (j < k)%nat -> 0 < pair_sum rho j) /\
    ((k < Nat.div2 (length rho))%nat -> pair_sum rho k <= 0) /\
    length (geyer_terms rho mn) = k /\
    (forall j, (j < k)%nat ->
       nth j (geyer_terms rho mn) 0 = fold_left Rmin (map (pair_sum rho) (seq 0 (S j))) mn).
Proof.
  intros rho mn. unfold geyer_terms.
  destruct (pos_prefix_spec (pairsums rho)) as [k [Hk [E [Hpos Hstop]]]].
  rewrite pairsums_length in Hk, Hstop.
  exists k. split; [exact Hk|]. split; [|split; [|split]].
  - intros j Hj. unfold pair_sum. rewrite <- pairsums_nth by lia. apply Hpos. exact Hj.
  - intros H. unfold pair_sum. rewrite <- pairsums_nth by lia. apply Hstop. exact H.
  - rewrite runmin_length, E. apply firstn_length_le. rewrite pairsums_length. exact Hk.
  - intros j Hj. rewrite runmin_nth.
    + rewrite E, firstn_firstn. replace (Nat.min (S j) k) with (S j) by lia.
      rewrite firstn_map_nth by (rewrite pairsums_length; lia).
      f_equal. apply map_ext_in. intros i Hi. apply in_seq in Hi.
      apply pairsums_nth. lia.
    + rewrite E, firstn_length_le; [exact Hj|]. rewrite pairsums_length. exact Hk.
Qed.

Lemma geyer_terms_props : forall (rho : list R) (mn : R), 0 < mn ->
  (forall j, (j < length (geyer_terms rho mn))%nat ->
     0 < nth j (geyer_terms rho mn) 0 /\
     nth j (geyer_terms rho mn) 0 <= pair_sum rho j /\
     nth j (geyer_terms rho mn) 0 <= mn) /\
  (forall j, (S j < length (geyer_terms rho mn))%nat ->
     nth (S j) (geyer_terms rho mn) 0 <= nth j (geyer_terms rho mn) 0).
Proof.
  intros rho mn Hmn. unfold geyer_terms. split.
  - intros j Hj. rewrite runmin_length in Hj. split; [|split].
    + assert (H : allpos (runmin mn (pos_prefix (pairsums rho)))).
      { apply runmin_allpos; [exact Hmn|apply pos_prefix_allpos]. }
      unfold allpos in H. rewrite Forall_nth in H. apply H. rewrite runmin_length. exact Hj.
    + eapply Rle_trans; [apply runmin_le_term; exact Hj|].
      destruct (pos_prefix_spec (pairsums rho)) as [k [Hk [E [Hpos Hstop]]]].
      rewrite pairsums_length in Hk.
      rewrite E in Hj |- *. rewrite firstn_length_le in Hj by (rewrite pairsums_length; exact Hk).
      rewrite nth_firstn_lt by exact Hj. unfold pair_sum. rewrite pairsums_nth by lia. lra.
    + apply runmin_le_start. exact Hj.
  - intros j Hj. rewrite runmin_length in Hj. apply runmin_mono. exact Hj.
Qed.

(* ------------------------------------------------------------------ ess_tau with a selectable autocovariance *)
Definition ess_tau_with (ac : list R -> list R) (hs : list (list R)) : R :=
  tau_of_rho numR
    (rho_core (fst (withinvar numR hs)) (snd (withinvar numR hs)) (hd_len hs) (map ac hs)).

Lemma ess_tau_with_bf : forall hs, ess_tau_with (autocov numR) hs = ess_tau numR hs.
Proof. intros hs. reflexivity. Qed.

Lemma ess_tau_with_fft : forall (P N : nat) (hs : list (list R)),
  (forall h, In h hs -> length h = N) -> (2 * N - 1 <= P)%nat ->
  ess_tau_with (circ_autocov numR P) hs = ess_tau numR hs.
Proof.
  intros P N hs Hall HP. rewrite <- ess_tau_with_bf. unfold ess_tau_with. do 2 f_equal.
  apply map_ext_in. intros h Hh. apply circ_autocov_eq. rewrite (Hall h Hh). exact HP.
Qed.

Lemma tau_of_rho_pair_sum : forall rho : list R,
  tau_of_rho numR rho = 2 * sumR (geyer_terms rho (pair_sum rho 0)) - 1.
Proof.
  intros rho. rewrite tau_of_rho_spec.
  destruct rho as [|r0 [|r1 rest]]; reflexivity.
Qed.

(* ------------------------------------------------------------------ the invariances, for ess itself *)
Lemma ess_unfold : forall hs : list (list R),
  ess numR hs = IZR (Z.of_nat (length hs)) * IZR (Z.of_nat (hd_len hs)) / ess_tau numR hs.
Proof. intros hs. reflexivity. Qed.

Lemma ess_rev : forall hs : list (list R),
  ess_tau numR (map (@rev R) hs) = ess_tau numR hs /\ ess numR (map (@rev R) hs) = ess numR hs.
Proof.
  intros hs. split; [apply ess_tau_rev|].
  rewrite !ess_unfold, ess_tau_rev, map_length, (hd_len_map (@rev R) hs (@rev_length R)).
  reflexivity.
Qed.

Lemma ess_affine : forall (a b : R) (hs : list (list R)) (N : nat),
  a <> 0 -> (forall h, In h hs -> length h = N) -> snd (withinvar numR hs) <> 0 ->
  ess_tau numR (map (map (fun x => a * x + b)) hs) = ess_tau numR hs /\
  ess numR (map (map (fun x => a * x + b)) hs) = ess numR hs.
Proof.
  intros a b hs N Ha Hall Hv.
  assert (E := ess_tau_affine a b hs N Ha Hall Hv). split; [exact E|].
  rewrite !ess_unfold, E, map_length.
  rewrite (hd_len_map (map (fun x => a * x + b)) hs) by (intros h; apply map_length).
  reflexivity.
Qed.

Lemma ess_perm : forall (hs hs' : list (list R)) (N : nat),
  Permutation hs hs' -> (forall h, In h hs -> length h = N) ->
  ess_tau numR hs' = ess_tau numR hs /\ ess numR hs' = ess numR hs.
Proof.
  intros hs hs' N HP Hall.
  assert (E := ess_tau_perm hs hs' N HP Hall). split; [exact E|].
  rewrite !ess_unfold, E, <- (Permutation_length HP).
  destruct hs as [|h0 hs0] eqn:Ehs.
  - apply Permutation_nil in HP. rewrite HP. reflexivity.
  - rewrite <- Ehs in *.
    assert (Hne : hs <> []) by (rewrite Ehs; discriminate).
    assert (Hne' : hs' <> []).
    { intros E'. rewrite E' in HP. apply Permutation_sym, Permutation_nil in HP. contradiction. }
    assert (Hall' : forall h, In h hs' -> length h = N).
    { intros h Hh. apply Hall. apply (Permutation_in h (Permutation_sym HP)). exact Hh. }
    rewrite (hd_len_common hs N Hne Hall), (hd_len_common hs' N Hne' Hall'). reflexivity.
Qed.
