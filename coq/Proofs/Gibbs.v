From MiniMcmc Require Import Base.Util Model.Gibbs.

Section GibbsProofs.
  Context {V C : Type}.
  Variable cond : C -> nat -> list V -> V * C.

  Lemma fold_seq_prefix k : forall c st,
    fold_left (sweep_one cond) (seq 0 k) (c, st, []) = prefix cond k c st.
  Proof.
    induction k as [|k IH]; intros c st; [reflexivity|].
    rewrite seq_S, fold_left_app. simpl. rewrite IH. reflexivity.
  Qed.

  Lemma prefix_length k c st : length (snd (fst (prefix cond k c st))) = length st.
  Proof.
    induction k as [|k IH]; simpl; auto.
    destruct (prefix cond k c st) as [[c' st'] log]. simpl in *.
    destruct (cond c' k st') as [v c'']. simpl. rewrite upd_length. exact IH.
  Qed.

  Theorem sweep_is_prefix c st : sweep cond c st = prefix cond (length st) c st.
  Proof. unfold sweep. apply fold_seq_prefix. Qed.

  (* the log of the first k calls has indices 0..k-1 in order *)
  Lemma prefix_log_indices k c st : map fst (snd (prefix cond k c st)) = seq 0 k.
  Proof.
    induction k as [|k IH]; [reflexivity|].
    rewrite seq_S. cbn [prefix]. unfold sweep_one at 1.
    destruct (prefix cond k c st) as [[c' st'] log]. cbn [fst snd] in *.
    destruct (cond c' k st') as [v c'']. cbn [fst snd].
    rewrite map_app, IH. reflexivity.
  Qed.

  (* untouched coordinates: after k refreshes, coordinates >= k still hold the old values *)
  Lemma prefix_frame k c st j d : k <= j -> nth j (snd (fst (prefix cond k c st))) d = nth j st d.
  Proof.
    induction k as [|k IH]; intros Hj; simpl; auto.
    destruct (prefix cond k c st) as [[c' st'] log] eqn:E. simpl in *.
    destruct (cond c' k st') as [v c'']. simpl.
    rewrite nth_upd_other by lia. apply IH. lia.
  Qed.

  (* the `given` of call k is the state after exactly k refreshes *)
  Lemma prefix_log_nth k : forall c st i, i < k ->
    nth i (snd (prefix cond k c st)) (0, []) = (i, snd (fst (prefix cond i c st))).
  Proof.
    induction k as [|k IH]; intros c st i Hi; [lia|].
    simpl. destruct (prefix cond k c st) as [[c' st'] log] eqn:E. simpl.
    destruct (cond c' k st') as [v c''] eqn:Ec. simpl.
    assert (Hlen : length log = k).
    { pose proof (prefix_log_indices k c st) as H. rewrite E in H. simpl in H.
      rewrite <- (map_length fst), H, seq_length. reflexivity. }
    destruct (Nat.eq_dec i k) as [->|Hne].
    - rewrite app_nth2 by lia. rewrite Hlen, Nat.sub_diag. simpl. rewrite E. reflexivity.
    - rewrite app_nth1 by lia. specialize (IH c st i). rewrite E in IH. simpl in IH. apply IH. lia.
  Qed.

  (* later refreshes do not touch coordinate j once it has been refreshed *)
  Lemma prefix_stable k : forall c st j d m, j < k -> k <= m ->
    nth j (snd (fst (prefix cond m c st))) d = nth j (snd (fst (prefix cond k c st))) d.
  Proof.
    intros c st j d m Hj Hm. induction m as [|m IH]; [lia|].
    destruct (Nat.eq_dec k (S m)) as [->|Hne]; [reflexivity|].
    simpl. destruct (prefix cond m c st) as [[c' st'] log] eqn:E. simpl in *.
    destruct (cond c' m st') as [v c'']. simpl.
    rewrite nth_upd_other by lia. apply IH. lia.
  Qed.

  (* value written by call k *)
  Lemma prefix_written k c st d : k < length st ->
    nth k (snd (fst (prefix cond (S k) c st))) d
    = fst (cond (fst (fst (prefix cond k c st))) k (snd (fst (prefix cond k c st)))).
  Proof.
    intros Hk. simpl.
    pose proof (prefix_length k c st) as Hl.
    destruct (prefix cond k c st) as [[c' st'] log]. simpl in *.
    destruct (cond c' k st') as [v c'']. simpl.
    apply nth_upd_same. lia.
  Qed.
End GibbsProofs.

Section GibbsTheorems.
  Context {V C : Type}.
  Variable cond : C -> nat -> list V -> V * C.

  Theorem sweep_calls c st : map fst (sweep_log cond c st) = seq 0 (length st).
  Proof. unfold sweep_log. rewrite sweep_is_prefix. apply prefix_log_indices. Qed.

  Theorem sweep_length c st : length (sweep_state cond c st) = length st.
  Proof. unfold sweep_state. rewrite sweep_is_prefix. apply prefix_length. Qed.

  Theorem sweep_freshest c st k j d : k < length st ->
    nth j (snd (nth k (sweep_log cond c st) (0, []))) d
    = if j <? k then nth j (sweep_state cond c st) d else nth j st d.
  Proof.
    intros Hk. unfold sweep_log, sweep_state. rewrite sweep_is_prefix.
    rewrite prefix_log_nth by assumption. cbn [snd].
    destruct (j <? k) eqn:E.
    - apply Nat.ltb_lt in E. symmetry. apply prefix_stable; lia.
    - apply Nat.ltb_ge in E. apply prefix_frame. assumption.
  Qed.

  (* the value stored at coordinate k is the conditional's answer to call k (made with the
     conditional's own state as left by the k earlier calls) *)
  Theorem sweep_written c st k d : k < length st ->
    nth k (sweep_state cond c st) d
    = fst (cond (fst (fst (prefix cond k c st))) k (snd (nth k (sweep_log cond c st) (0, [])))).
  Proof.
    intros Hk. unfold sweep_state, sweep_log. rewrite sweep_is_prefix.
    rewrite prefix_log_nth by assumption. cbn [snd].
    rewrite (prefix_stable cond (S k) c st k d (length st)) by lia.
    apply prefix_written. assumption.
  Qed.
End GibbsTheorems.
