From MiniMcmc Require Import Model.DualAvg.
