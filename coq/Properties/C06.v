(* C06 — long-run averages converge to the target's expectations.
   What a theorem can carry (see DESIGN.md C06): the target is stationary for each kernel, the
   integrator is reversible, the NUTS selection rule is Algorithm 6's.  These are restatements of
   theorems proved for C01, C02, C03, C05; the convergence clause itself is statistical and is
   checked by calibrated z-scores (the variates' laws and the ergodic theorem are assumed). *)
From MiniMcmc Require Import Base.Fp Model.MH Proofs.MH Model.HMC Proofs.HMC Model.NUTS Proofs.NUTS.
From Coq Require Import Reals.
Open Scope R_scope.

Section C06_mh.
  Context {St : Type}.
  Variable eqb : St -> St -> bool.
  Hypothesis eqb_spec : forall x y, eqb x y = true <-> x = y.
  Variable states : list St.
  Variable pi : St -> R.
  Variable q : St -> St -> R.
  Hypothesis pi_pos : forall x, 0 < pi x.
  Hypothesis q_nonneg : forall x y, 0 <= q x y.

  (* the target is stationary for the MH kernel on every finite state space, asymmetric proposals included *)
  Theorem C06_mh_stationary : forall y, NoDup states -> In y states ->
    sumR (fun x => pi x * K eqb states pi q x y) states = pi y.
  Proof. exact (stationary eqb eqb_spec states pi q pi_pos q_nonneg). Qed.
End C06_mh.

Section C06_hmc.
  Variable grad : list R -> list R.
  Variable eps : R.
  Hypothesis grad_length : forall x, length (grad x) = length x.

  (* L leapfrog steps are exactly time-reversible for every step size *)
  Theorem C06_hmc_reversible : forall L x p, length p = length x ->
    leapfrog numR grad eps L (flip numR (leapfrog numR grad eps L (x, p))) = flip numR (x, p).
  Proof. exact (leapfrog_reversible grad eps grad_length). Qed.
End C06_hmc.

(* ---- leapfrog = kick . drift . kick: each factor is a shear with an explicit inverse (any dimension), and in
   dimension one the composed map has Jacobian determinant 1 (volume preservation; the multivariate change of
   variables is not available in the installed libraries and is NOT proved for dimension > 1) ---- *)
From MiniMcmc Require Import Proofs.Shear.
From Coquelicot Require Import Coquelicot.

Section C06_shear.
  Variable grad : list R -> list R.
  Hypothesis grad_length : forall x, length (grad x) = length x.

  Theorem C06_leap_shear : forall (eps : R) z,
    leap1 numR grad eps z = kickv grad (half_eps numR eps) (driftv eps (kickv grad (half_eps numR eps) z)).
  Proof. exact (leap1_decomp grad). Qed.

  (* the step with -eps is the inverse map: leapfrog is a bijection of phase space *)
  Theorem C06_leap_bijective : forall (eps : R) x p, length p = length x ->
    leap1 numR grad (- eps) (leap1 numR grad eps (x, p)) = (x, p).
  Proof. exact (leap1_inverse grad grad_length). Qed.
End C06_shear.

Theorem C06_leap_volume_1d : forall (g : R -> R) (eps x p : R), det4 (leap_1d_jac g eps x p) = 1.
Proof. exact leap_1d_jacobian_det. Qed.

Theorem C06_leap_jacobian_1d : forall (g : R -> R) (eps x p : R),
  ex_derive g x -> ex_derive g (x + eps * (p + eps * (1 / 2) * g x)) ->
  let '(ja, jb, jc, jd) := leap_1d_jac g eps x p in
  is_derive (fun x0 => fst (leap_1d g eps (x0, p))) x ja /\
  is_derive (fun p2 => fst (leap_1d g eps (x, p2))) p jb /\
  is_derive (fun x0 => snd (leap_1d g eps (x0, p))) x jc /\
  is_derive (fun p2 => snd (leap_1d g eps (x, p2))) p jd.
Proof. exact leap_1d_partials. Qed.

Print Assumptions C06_mh_stationary.
Print Assumptions C06_hmc_reversible.
Print Assumptions C06_leap_shear.
Print Assumptions C06_leap_bijective.
Print Assumptions C06_leap_volume_1d.
Print Assumptions C06_leap_jacobian_1d.
