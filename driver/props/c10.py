"""C10 — progress mode returns the same draws, always terminates, in any precision."""
import json, subprocess
from concurrent.futures import ThreadPoolExecutor
import common as C

ID = "C10"
LEVEL = "other"
COQ_HEADER = "From MiniMcmc Require Import Model.Reporter."
RULE = ("(i) run vs run_progress on identically built samplers MH/Gibbs/HMC/NUTS, chain counts {1,2,5,6,7,11,16,48}, (n,d) grid "
        "with n >= 4, element types {f32,f64} x backends {NdArray<f32>,NdArray<f64>} for HMC/NUTS: draws bitwise equal (NUTS: "
        "shifted by its one-draw offset), RunStats == RunStats::from(returned draws); (ii) the reporter loop's per-iteration "
        "snapshots (hook) replayed through Model.Reporter.tick inside Coq: active bars, next_active, n_finished, exit flag must "
        "match at every iteration, with chain speed profiles forced by sleeping chains (fast-first, slow-first, one straggler, "
        "all-at-once, more chains than bars); (iii) run_chain_progress called directly with the receiver dropped before/during/"
        "after; every case runs in its own process under a watchdog. Non-trivial: > 5 chains (bars recycled) or a mixed-type "
        "backend or a dropped receiver.")
EXPLANATION = ("Proved: worker returns run_chain's rows for every send/timing oracle and its last message carries n = total; "
               "reporter invariants (n_finished + |active| = next_active <= n_chains, no double counting), no exit before all "
               "chains finished, exit within ceil(n/5)+1 ticks once all final messages are delivered. Observed (partial): real "
               "thread timing is sampled through forced speed profiles; mpsc FIFO/eventual delivery is assumed.")
TRUSTED = ["std::sync::mpsc (per-channel FIFO, send to a dropped receiver returns Err)", "std::thread::scope / spawn", "indicatif"]
ASSUMPTIONS = ["a finite run delivers every sent message eventually"]
WATCHDOG_S = 90


def generate(rng, tier):
    cases = []
    # (ii) reporter profiles
    profiles = {
        "all-at-once": lambda n: [0] * n,
        "fast-first": lambda n: [i * 3000 for i in range(n)],
        "slow-first": lambda n: [(n - i) * 3000 for i in range(n)],
        "straggler": lambda n: [0] * (n - 1) + [40000],
        "first-straggler": lambda n: [40000] + [0] * (n - 1),
        "random": lambda n: [rng.choice([0, 0, 5000, 20000]) for _ in range(n)],
    }
    counts = [1, 2, 5, 6, 7, 11, 16] + ([48] if tier == "thorough" else [])
    for nc in counts:
        for name in (profiles if tier == "thorough" else rng.sample(sorted(profiles), 3)):
            n, d = rng.choice([(4, 0), (4, 3), (6, 2), (10, 0)])
            cases.append({"op": "reporter", "delays": profiles[name](nc), "n": n, "d": d, "profile": name})
    cases.append({"op": "reporter", "delays": [0] * 48, "n": 4, "d": 1, "profile": "48-chains"})
    # a burn-in state whose f32 image is not finite (an f64 value beyond f32::MAX, +inf, NaN): the statistics see it, the returned
    # draws do not; progress mode must still terminate and return run()'s draws
    for bits, nm in [(C.float_to_f64_bits(1e39), "1e39"), (0x7FF0000000000000, "inf"), (0x7FF8000000000000, "nan")]:
        for nc in ([1, 3] if tier == "quick" else [1, 2, 3, 7]):
            d = rng.choice([2, 3, 5])
            cases.append({"op": "reporter", "delays": [0] * nc, "n": rng.choice([4, 6]), "d": d, "profile": "spike-" + nm,
                          "spike": {"at": rng.randint(1, d), "bits": str(bits), "chains": [rng.randrange(nc)]}})
    # (i) run vs run_progress
    kinds = [("mh", "f64"), ("mh", "f32"), ("gibbs", "f64"), ("hmc", "f32"), ("hmc", "f64"), ("hmc", "f64b32"), ("hmc", "f32b64"),
             ("nuts", "f32"), ("nuts", "f64"), ("nuts", "f64b32"), ("nuts", "f32b64")]
    for kind, f in kinds:
        for nc in ([1, 6] if tier == "quick" else [1, 2, 5, 6, 7, 11, 16]):
            n, d = rng.choice([(4, 0), (5, 3), (8, 1), (4, 7)])
            cases.append({"op": "progress_eq", "kind": kind, "f": f, "seed": str(rng.getrandbits(64)), "n_chains": nc, "n": n, "d": d})
    # (iii) worker with dropped receiver
    for mode in ["before", "during", "after"]:
        for (n, d, delay) in [(4, 0, 0), (5, 3, 0), (6, 2, 30000)]:
            cases.append({"op": "worker", "n": n, "d": d, "drop": mode, "delay_us": delay})
    return cases


def run_one(case):
    try:
        p = subprocess.run([C.HARNESS_BIN, "C10"], input=json.dumps(case) + "\n", capture_output=True, text=True,
                           timeout=WATCHDOG_S)
        lines = [l for l in p.stdout.splitlines() if l.startswith("{")]
        if p.returncode != 0 or not lines:
            return {"crash": "rc=%s %s" % (p.returncode, p.stderr[-300:])}
        return json.loads(lines[-1])
    except subprocess.TimeoutExpired:
        return {"timeout": WATCHDOG_S}


def run_impl(cases):
    with ThreadPoolExecutor(max_workers=8) as ex:
        return list(ex.map(run_one, cases))


PKIND = {"mh": 0, "gibbs": 0, "nuts": 2}


def coq_term(case, out):
    if case["op"] == "worker" and "rows_flat" in out and case["drop"] != "during":
        return "worker_eval %s %s %d" % (C.natlit(case["n"]), C.natlit(case["d"]), 1 if case["drop"] == "after" else 0)
    if case["op"] == "progress_eq" and case["kind"] in PKIND and "same_draws" in out:
        k, n, d = PKIND[case["kind"]], case["n"], case["d"]
        return "progress_idx %s %s %s ++ real_idx %s %s %s" % (
            C.natlit(k), C.natlit(n), C.natlit(d), C.natlit(k), C.natlit(n + 1 if k == 2 else n), C.natlit(d))
    if case["op"] != "reporter" or "ticks" not in out:
        return None
    snaps = [t["recent"] for t in out["ticks"] if t["phase"] == 0]
    total = case["n"] + case["d"]
    return "reporter_eval %d %s [%s]" % (total, C.natlit(len(case["delays"])), "; ".join(C.zlist(s) for s in snaps))


def compare(case, out, model):
    if model is None:
        return None
    if case["op"] == "worker":
        n, d = case["n"], case["d"]
        exp_state, exp_rows, msgs = model[:3], model[3:3 + 3 * n], model[3 + 3 * n:]
        if out["final"] != exp_state or out["rows_flat"] != exp_rows:
            return "run_chain_progress on the counting chain: rows/final state %s / %s, Model.Reporter.run_chain_progress_impl gives %s / %s" % (
                out["rows_flat"][:9], out["final"], exp_rows[:9], exp_state)
        delivered = [msgs[i] for i in range(0, len(msgs), 2) if msgs[i + 1] == 1]
        if out["msgs"] != delivered:
            return "messages received %s, model's delivered messages %s" % (out["msgs"], delivered)
        return None
    if case["op"] == "progress_eq":
        n = case["n"]
        prog, run = model[:n + 1], model[n + 1:]
        same_model = (prog[:n] == run[1:n + 1]) if case["kind"] == "nuts" else (prog == run)
        if same_model != bool(out["same_draws"]):
            return ("progress mode %s the draws of run() on the implementation, but the models' recorded transition counts are "
                    "progress %s vs run %s" % ("returns" if out["same_draws"] else "does not return", prog, run))
        return None
    exp = []
    for t in out["ticks"]:
        if t["phase"] == 1:
            done = 1 if t["n_finished"] >= len(case["delays"]) else 0
            exp += [t["n_finished"], t["next_active"], len(t["active"])] + t["active"] + [done]
    if exp != model:
        return "reporter loop states differ from Model.Reporter.tick replay (impl %s... model %s...)" % (exp[:12], model[:12])
    return None


def oracle(case, out):
    tag = json.dumps({k: v for k, v in case.items() if k != "delays"})
    if "timeout" in out:
        return "%s: did not terminate within %d s (watchdog)" % (tag, out["timeout"])
    if "crash" in out:
        return "%s: process died: %s" % (tag, out["crash"])
    if "panic" in out:
        return "%s: panicked: %s" % (tag, out["panic"])
    if not out.get("same_draws", True):
        return "%s: progress mode returned different draws than run (first differing entry %s)" % (tag, out.get("first_diff"))
    if case["op"] == "progress_eq":
        if out["stats"] != out["stats_from_draws"]:
            return "%s: returned RunStats differ from RunStats computed from the returned draws" % tag
        if out["shape"] != [case["n_chains"], case["n"], 2]:
            return "%s: shape %s" % (tag, out["shape"])
    if case["op"] == "reporter":
        if not out["stats_match"]:
            return "%s: RunStats differ from the returned draws' statistics" % tag
        nch = len(case["delays"])
        last = [t for t in out["ticks"] if t["phase"] == 1][-1]
        if last["n_finished"] < nch or any(r != case["n"] + case["d"] for r in last["recent"]):
            return "%s: reporter exited before all chains had finished: %s" % (tag, last)
        for t in out["ticks"]:
            if len(t["active"]) > 5 or len(set(t["active"])) != len(t["active"]):
                return "%s: more than 5 / duplicate active bars: %s" % (tag, t["active"])
    if case["op"] == "worker":
        if not out["same_final"] or out["rows"] != case["n"]:
            return "%s: worker with receiver dropped %s changed the chain's behaviour" % (tag, case["drop"])
        if case["drop"] == "after" and (not out["msgs"] or out["msgs"][-1] != case["n"] + case["d"]):
            return "%s: final message does not carry n = total (%s)" % (tag, out["msgs"])
    return None


def finding_class(case, out, d):
    return None


def nontrivial(case, out):
    if case["op"] == "reporter":
        return len(case["delays"]) > 5
    if case["op"] == "progress_eq":
        return "b" in case["f"][1:] or case["n_chains"] > 5 or case["kind"] == "nuts"
    return case["drop"] != "after"


def extra(cases, outs, model):
    ops = {}
    for c in cases:
        k = c["op"] + ("/" + c.get("profile", "") if c["op"] == "reporter" else "")
        ops[k] = ops.get(k, 0) + 1
    ticks = sum(len(o.get("ticks", [])) // 2 for o in outs)
    return {"operations": ops, "reporter_iterations_replayed": ticks}
