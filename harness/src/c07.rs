//! C07: same seed, same output; thread-count / schedule independence. C08: distinct streams.
use crate::util::*;
use crate::zoo::*;
use mini_mcmc::core::init_with_seed;
use rand::rngs::SmallRng;
use rand::{RngCore, SeedableRng};
use serde_json::{json, Value};

/// run the spec `reps` times (fresh construction each time), return the digests
fn repro(c: &Value) -> Value {
    let reps = c["reps"].as_u64().unwrap_or(2);
    let outs: Vec<Value> = (0..reps).map(|_| guarded(|| run_spec(c).json(false))).collect();
    json!({"runs": outs})
}

/// run the spec alone, then again while `others` run concurrently in other threads
fn concurrent(c: &Value) -> Value {
    let solo = guarded(|| run_spec(c).json(false));
    let others: Vec<Value> = arr(c, "others").clone();
    let me = c.clone();
    let res = std::thread::scope(|s| {
        let hs: Vec<_> = others
            .iter()
            .map(|o| s.spawn(move || guarded(|| run_spec(o).json(false))))
            .collect();
        let mine = s.spawn(move || guarded(|| run_spec(&me).json(false)));
        let r = mine.join().unwrap();
        let os: Vec<Value> = hs.into_iter().map(|h| h.join().unwrap()).collect();
        (r, os)
    });
    json!({"solo": solo, "concurrent": res.0, "others": res.1})
}

/// derived per-chain seeds / generator outputs where the fields are public
fn seeds(c: &Value) -> Value {
    let seed = u64f(c, "seed");
    let k = us(c, "k");
    let mh = guarded(|| {
        let s = build_mh64(c);
        let outs: Vec<Vec<u64>> = s
            .chains
            .iter()
            .map(|ch| {
                let mut r = ch.rng.clone();
                (0..k).map(|_| r.next_u64()).collect()
            })
            .collect();
        let props: Vec<Vec<u64>> = s
            .chains
            .iter()
            .map(|ch| {
                // the proposal's generator is private: observe it through 2 proposals from the origin
                let mut p = ch.proposal.clone();
                use mini_mcmc::distributions::Proposal;
                let a = p.sample(&[0.0, 0.0]);
                let b = p.sample(&[0.0, 0.0]);
                vec![a[0].to_bits(), a[1].to_bits(), b[0].to_bits(), b[1].to_bits()]
            })
            .collect();
        json!({"acc_outputs": outs, "prop_draws": props})
    });
    let gibbs = guarded(|| {
        let s = build_gibbs(c);
        let seeds: Vec<u64> = s.chains.iter().map(|ch| ch.seed).collect();
        let outs: Vec<Vec<u64>> = s
            .chains
            .iter()
            .map(|ch| {
                let mut r = ch.rng.clone();
                (0..k).map(|_| r.next_u64()).collect()
            })
            .collect();
        json!({"seeds": seeds, "outputs": outs, "sampler_seed": s.seed})
    });
    // reference: what the real SmallRng emits for a given seed (ties Base/Rng.v to rand)
    let mut r = SmallRng::seed_from_u64(seed);
    let reference: Vec<u64> = (0..k).map(|_| r.next_u64()).collect();
    // float conversions of rand's StandardUniform and the harness's injection state (ties Base/Rng.v uniform53 /
    // uniform24 / inject_state): numerators u * 2^53, u * 2^24
    use rand::Rng;
    let u64n = |mut r: SmallRng| -> u64 { (r.random::<f64>() * 9007199254740992.0) as u64 };
    let u32n = |mut r: SmallRng| -> u64 { (r.random::<f32>() * 16777216.0) as u64 };
    let uniforms: Vec<u64> = vec![
        u64n(SmallRng::seed_from_u64(seed)),
        u32n(SmallRng::seed_from_u64(seed)),
        rng_first_output(seed).next_u64(),
        u64n(rng_first_output(seed)),
        u32n(rng_first_output(seed)),
    ];
    json!({"mh": mh, "gibbs": gibbs, "reference": reference, "uniforms": uniforms})
}

fn init_ops(c: &Value) -> Value {
    use mini_mcmc::core::{init, init_det};
    use rand_distr::{Distribution, StandardNormal};
    let (n, d, seed) = (us(c, "n"), us(c, "d"), u64f(c, "seed"));
    let a: Vec<Vec<f64>> = init_with_seed(n, d, seed);
    let b: Vec<Vec<f64>> = init_with_seed(n, d, seed);
    let a32: Vec<Vec<f32>> = init_with_seed(n, d, seed);
    // the harness's own replay of the generator: the n*d standard-normal draws, in order
    let mut r = SmallRng::seed_from_u64(seed);
    let draws: Vec<u64> = (0..n * d).map(|_| { let x: f64 = StandardNormal.sample(&mut r); x.to_bits() }).collect();
    let det: Vec<Vec<f64>> = init_det(n, d);
    let det42: Vec<Vec<f64>> = init_with_seed(n, d, 42);
    let un: Vec<Vec<f64>> = init(n, d);
    let un32: Vec<Vec<f32>> = init(n, d);
    json!({"same64": a == b, "rows64": a.iter().map(|r| r.len()).collect::<Vec<_>>(),
           "rows32": a32.iter().map(|r| r.len()).collect::<Vec<_>>(),
           "f64": a.iter().flatten().map(|x| x.to_bits()).collect::<Vec<u64>>(),
           "f32": a32.iter().flatten().map(|x| x.to_bits() as u64).collect::<Vec<u64>>(),
           "draws": draws, "det_is_42": det == det42,
           "unseeded_rows": un.iter().map(|r| r.len()).collect::<Vec<_>>(),
           "unseeded_finite": un.iter().flatten().all(|x| x.is_finite()) && un32.iter().flatten().all(|x| x.is_finite()),
           "unseeded_rows32": un32.len()})
}

pub fn run(c: &Value) -> Value {
    match strf(c, "op") {
        "repro" => repro(c),
        "concurrent" => concurrent(c),
        "seeds" => seeds(c),
        "init" => init_ops(c),
        "run" => run_spec(c).json(c["full"].as_bool().unwrap_or(false)),
        op => panic!("unknown op {op}"),
    }
}

// ------------------------------------------------------------------ C08
use mini_mcmc::distributions::{Gaussian2D, IsotropicGaussian, Proposal};
use mini_mcmc::metropolis_hastings::MetropolisHastings;
use ndarray::{arr1, arr2};

/// A user-defined seedable proposal that records the seed the library hands to it.
#[derive(Clone)]
pub struct SeedRec {
    pub seed: Option<u64>,
    pub rng: SmallRng,
}
impl Proposal<f64, f64> for SeedRec {
    fn sample(&mut self, current: &[f64]) -> Vec<f64> {
        use rand::Rng;
        current.iter().map(|x| x + self.rng.random::<f64>() - 0.5).collect()
    }
    fn logp(&self, _from: &[f64], _to: &[f64]) -> f64 {
        0.0
    }
    fn set_seed(mut self, seed: u64) -> Self {
        self.seed = Some(seed);
        self.rng = SmallRng::seed_from_u64(seed);
        self
    }
}

fn first_outputs(r: &SmallRng, k: usize) -> Vec<u64> {
    let mut r = r.clone();
    (0..k).map(|_| r.next_u64()).collect()
}

fn mh_streams(c: &Value) -> Value {
    let n_chains = us(c, "n_chains");
    let target = Gaussian2D { mean: arr1(&[0.0, 0.0]), cov: arr2(&[[1.0, 0.0], [0.0, 1.0]]) };
    let init = vec![vec![0.25f64, 1.25]; n_chains];
    // (1) the library's IsotropicGaussian
    // the proposal object may have been used before it is handed to the sampler (pending internal state must not be shared)
    let mut prop0 = IsotropicGaussian::new(1.0f64);
    for _ in 0..c["pre_used"].as_u64().unwrap_or(0) {
        let _ = prop0.sample(&[0.0, 0.0]);
    }
    let mh = MetropolisHastings::new(target.clone(), prop0, init.clone());
    let mh = match opt_seed(c) {
        Some(s) => mh.seed(s),
        None => mh,
    };
    let lib: Vec<Value> = mh
        .chains
        .iter()
        .map(|ch| {
            let mut p = ch.proposal.clone();
            let a = p.sample(&[0.0, 0.0]);
            let b = p.sample(&[0.0, 0.0]);
            json!({"acc": first_outputs(&ch.rng, 4),
                   "prop": [a[0].to_bits(), a[1].to_bits(), b[0].to_bits(), b[1].to_bits()]})
        })
        .collect();
    // what an IsotropicGaussian seeded with a given u64 proposes (to compare against acceptance seeds)
    let probe = |seed: u64| -> Vec<u64> {
        let mut p = IsotropicGaussian::new(1.0f64).set_seed(seed);
        let a = p.sample(&[0.0, 0.0]);
        let b = p.sample(&[0.0, 0.0]);
        vec![a[0].to_bits(), a[1].to_bits(), b[0].to_bits(), b[1].to_bits()]
    };
    let probes: Vec<Value> = arr(c, "probe_seeds").iter().map(|s| json!(probe(s.as_str().unwrap().parse().unwrap()))).collect();
    // (2) a user-defined seedable proposal
    let rec = SeedRec { seed: None, rng: SmallRng::seed_from_u64(1) };
    let mh2 = MetropolisHastings::new(target, rec, init);
    let mh2 = match opt_seed(c) {
        Some(s) => mh2.seed(s),
        None => mh2,
    };
    let user: Vec<Value> = mh2
        .chains
        .iter()
        .map(|ch| {
            let same = ch.proposal.seed.map(|s| SmallRng::seed_from_u64(s) == ch.rng);
            let mut p = ch.proposal.clone();
            let a = p.sample(&[0.0, 0.0]);
            json!({"acc": first_outputs(&ch.rng, 4), "prop_seed": ch.proposal.seed.map(|s| s.to_string()),
                   "prop": [a[0].to_bits(), a[1].to_bits()],
                   "acc_rng_equals_prop_rng": ch.rng == ch.proposal.rng, "acc_seeded_like_prop": same})
        })
        .collect();
    json!({"lib": lib, "user": user, "probes": probes})
}

/// chains started from ONE common state: per-chain digests of the trajectories
fn traj(c: &Value) -> Value {
    let mut spec = c.clone();
    spec["same_init"] = json!(true);
    let out = run_spec(&spec);
    let (nc, n, d) = (out.shape[0], out.shape[1], out.shape[2]);
    let per: Vec<String> = (0..nc).map(|i| format!("{:016x}", fnv(&out.bits[i * n * d..(i + 1) * n * d]))).collect();
    let first: Vec<Vec<u64>> = (0..nc).map(|i| out.bits[i * n * d..i * n * d + d].to_vec()).collect();
    // a chain whose rows are all one state made no move at all (every proposal rejected): two such chains
    // started from the common state coincide without sharing any randomness
    let moved: Vec<bool> = (0..nc)
        .map(|i| (1..n).any(|k| out.bits[(i * n + k) * d..(i * n + k + 1) * d] != out.bits[i * n * d..i * n * d + d]))
        .collect();
    json!({"per_chain": per, "first_rows": first, "shape": out.shape, "moved": moved})
}

pub fn run08(c: &Value) -> Value {
    match strf(c, "op") {
        "mh_streams" => mh_streams(c),
        "traj" => traj(c),
        op => panic!("unknown op {op}"),
    }
}
