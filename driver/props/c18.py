"""C18 — initial-position helpers: shape, purity, prefix property, conversion."""
import math
from fractions import Fraction
import common as C
import zigref, gen_zigtables

ID = "C18"
LEVEL = "proof"
DIGEST = True
COQ_HEADER = "From MiniMcmc Require Import Model.Init Model.ZigOracle."
RULE = ("init_with_seed(n, d, seed) for n, d in 0..256 (sample; all small pairs), seeds {0,1,42,2^63,u64::MAX-k,random}, f32 and "
        "f64, compared bitwise with Model.Init.init_model fed with the n*d standard-normal draws the harness replays itself "
        "from SmallRng::seed_from_u64(seed) (f32: conversion through Flocq round-to-nearest-even); init_det vs seed 42; "
        "prefix property across two requests; init() for shape and finiteness. END-TO-END: the same outputs are also computed from "
        "the SEED ALONE inside Coq (Model.Ziggurat.init_seeded64/32 = SplitMix64 seeding, xoshiro256++, the rand_distr 0.5.1 "
        "ziggurat with its tables regenerated from the crate source on every run, f64->f32 cast, row-major layout) and compared "
        "bitwise with init_with_seed's result and with the harness's replayed draws; only the platform's exp/ln on the ziggurat's "
        "slow paths (about 1.2 %% of draws) enter as supplied values, each checked against an 80-bit interval enclosure computed in "
        "Coq. Non-trivial: n >= 2 and d >= 2.")
TRUSTED = ["platform exp/ln on the ziggurat's wedge and tail paths: values supplied by the driver (Python math = the same libm), "
           "each checked against Interval's 80-bit enclosure widened by 2 ulp",
           "driver/gen_zigtables.py: decimal table literals of rand_distr's ziggurat_tables.rs converted with Python float() (correctly rounded, as rustc)"]
ASSUMPTIONS = ["StandardNormal produces independent N(0,1) variates (distributional clause observed in C06 only)"]
MAXU = (1 << 64) - 1


def generate(rng, tier):
    cases = []
    pairs = [(0, 0), (0, 5), (5, 0), (1, 1), (2, 3), (256, 1), (1, 256), (16, 16), (256, 8)]
    n_cases = 160 if tier == "quick" else 1500
    seeds = [0, 1, 42, 1 << 63, MAXU, MAXU - 7]
    for (n, d) in pairs:
        cases.append({"op": "init", "n": n, "d": d, "seed": str(rng.choice(seeds))})
    # large requests (a size-dependent code path would show here), each with a smaller request for the prefix property
    # quick tier: 64 x 65 is computed from the seed inside Coq, 128 x 129 (> 2^14 entries) is checked against the replayed stream
    # by the oracle; the thorough tier computes the large ones from the seed as well
    for (n, d) in [(64, 65)] + ([(128, 129), (256, 64), (200, 200), (256, 256)] if tier == "thorough" else []):
        cases.append({"op": "init", "n": n, "d": d, "seed": str(rng.getrandbits(64)), "smaller": rng.randint(1, 12), "big": True})
    if tier != "thorough":
        cases.append({"op": "init", "n": 128, "d": 129, "seed": str(rng.getrandbits(64)), "smaller": rng.randint(1, 12), "big": True, "huge": True})
    # the largest documented request (2^16 entries) and one above 2^15: checked against the replayed draw stream and the
    # prefix property by the oracle only (the literal is too long for the model's list walk in the quick tier)
    for (n, d) in [(256, 256), (182, 182)]:
        cases.append({"op": "init", "n": n, "d": d, "seed": str(rng.getrandbits(64)), "smaller": rng.randint(1, 5), "big": True, "huge": True})
    # requests known to contain a draw beyond 5 sigma (seed 6: entry [107][251] = -5.117...; seed 24: [153][63] = 5.24...): a
    # standard normal has no bound, nothing may censor the tails (found with the reference ziggurat; 1 entry in 1.7 million)
    for sd in ["6", "24"]:
        cases.append({"op": "init", "n": 255, "d": 255, "seed": sd, "big": True, "huge": True, "tail": True})
    while len(cases) < n_cases:
        n = rng.randint(0, 256) if rng.random() < 0.3 else rng.randint(0, 24)
        d = rng.randint(0, 256) if rng.random() < 0.3 else rng.randint(0, 24)
        if n * d > 600:
            d = max(1, 600 // max(1, n))
        s = rng.choice(seeds) if rng.random() < 0.5 else rng.getrandbits(64)
        c = {"op": "init", "n": n, "d": d, "seed": str(s)}
        if rng.random() < 0.4 and n >= 1:
            c["smaller"] = rng.randint(0, n)
        cases.append(c)
    return cases


def _val(t):
    s, m, e = t
    if s == 0:
        return Fraction(0)
    if s == 2:
        return None
    return Fraction(s * m) * Fraction(2) ** e


def check_oracle_values(triples):
    """every supplied exp/ln value must lie in the enclosure Coq computes for its argument, widened by 2 ulp"""
    if not triples:
        return None
    flat = [v for o in triples for v in (o[0], o[1])]
    enc = C.coq_eval("C18", COQ_HEADER, ["orc_enclosures %s" % C.zlist(flat)], tag="orc")[0]
    for j, o in enumerate(triples):
        v = zigref.b2f(o[2])
        a = zigref.b2f(o[1])
        lo, hi = _val(enc[6 * j:6 * j + 3]), _val(enc[6 * j + 3:6 * j + 6])
        if lo is None or hi is None:
            if o[0] == 1 and a == 0.0 and v == -math.inf:
                continue
            return "no enclosure for %s(%r)" % ("exp" if o[0] == 0 else "ln", a)
        w = Fraction(2) * Fraction(abs(v)) * Fraction(2) ** -52 + Fraction(2) ** -1074
        if not (lo - w <= Fraction(v) <= hi + w):
            return "supplied %s(%r) = %r is outside Coq's enclosure [%r, %r]" % ("exp" if o[0] == 0 else "ln", a, v, float(lo), float(hi))
    return None


def run_impl(cases):
    outs = C.run_harness("C18", cases)
    # the Coq tables must be what the crate source says now
    rc, o, e = C.sh(["python3", gen_zigtables.__file__, "--check"])
    tables_ok = None if rc == 0 else (o + e).strip()
    alltri = []
    for c, out in zip(cases, outs):
        if "panic" in out:
            continue
        out["tables"] = tables_ok
        if c.get("huge"):
            continue
        xs, tri = zigref.normals(int(c["seed"]), c["n"] * c["d"])
        out["zig_ref"] = xs
        out["zig_orc"] = [list(t) for t in tri]
        alltri += tri
    bad = check_oracle_values(alltri)
    for out in outs:
        out["orc_bad"] = bad
    # prefix property: a second, smaller request with the same d and seed
    sm = [i for i, c in enumerate(cases) if "smaller" in c]
    r = C.run_harness("C18", [dict(cases[i], n=cases[i]["smaller"]) for i in sm])
    for i, o in zip(sm, r):
        outs[i]["smaller_f64"] = o.get("f64")
        outs[i]["smaller_f32"] = o.get("f32")
    return outs


def coq_term(case, out):
    if "panic" in out or case.get("huge"):
        return None
    orc = C.zlist([t[2] for t in out["zig_orc"]])
    seeded = "(init_seeded64 %s%%N %s %s %s)" % (case["seed"], C.natlit(case["n"]), C.natlit(case["d"]), orc)
    if case.get("big"):
        return seeded            # the row-major layout is part of init_seeded; the harness's replayed draws are compared by the oracle
    return "(init64_eval %s %s %s) ++ (init32_eval %s %s %s) ++ (init_seeded32 %s%%N %s %s %s) ++ (normals_eval %s%%N %s %s)" % (
        C.zlist(out["draws"]), C.natlit(case["n"]), C.natlit(case["d"]),
        C.zlist(out["draws"]), C.natlit(case["n"]), C.natlit(case["d"]),
        case["seed"], C.natlit(case["n"]), C.natlit(case["d"]), orc,
        case["seed"], C.natlit(case["n"] * case["d"]), orc)


def impl_flat(case, out):
    if "panic" in out or case.get("huge"):
        return None
    log = [v for t in out["zig_orc"] for v in (t[0], t[1])]
    if case.get("big"):
        return [1] + out["f64"] + [0]
    return (out["f64"] + out["f32"] + [1] + out["f32"] + [0]
            + [1] + out["f64"] + [0] + log)


def compare(case, out, model):
    if "panic" in out:
        return "implementation panicked: " + out["panic"]
    if model is None:
        return None
    if out.get("tables"):
        return "ziggurat tables of the model are not those of the crate source: " + out["tables"]
    if out.get("orc_bad"):
        return "ziggurat oracle value: " + out["orc_bad"]
    if out.get("zig_ref") is not None and out["zig_ref"] != out["draws"]:
        return "the reference reading of xoshiro256++/ziggurat (driver/zigref.py) differs from rand_distr's draws for seed %s" % case["seed"]
    exp = impl_flat(case, out)
    if exp != model:
        k = 0 if case.get("big") else len(out["f64"]) + len(out["f32"])
        if list(model[:k]) != exp[:k]:
            return "init_with_seed(%d,%d,%s) differs from the row-major model of the replayed draws" % (case["n"], case["d"], case["seed"])
        return ("init_with_seed(%d,%d,%s) differs from Model.Ziggurat.init_seeded: the result is not what seed -> SplitMix64 -> "
                "xoshiro256++ -> ziggurat -> row-major layout gives" % (case["n"], case["d"], case["seed"]))
    return None


def oracle(case, out):
    if "panic" in out:
        return "init helpers panicked: " + out["panic"]
    n, d = case["n"], case["d"]
    if out["rows64"] != [d] * n or out["rows32"] != [d] * n:
        return "init_with_seed(%d,%d): row lengths %s" % (n, d, out["rows64"])
    if out["unseeded_rows"] != [d] * n or out["unseeded_rows32"] != n:
        return "init(%d,%d): row lengths %s" % (n, d, out["unseeded_rows"])
    if not out["unseeded_finite"]:
        return "init(%d,%d) returned a non-finite entry" % (n, d)
    if not out["same64"]:
        return "init_with_seed(%d,%d,%s) called twice gave different results" % (n, d, case["seed"])
    if not out["det_is_42"]:
        return "init_det(%d,%d) != init_with_seed(%d,%d,42)" % (n, d, n, d)
    if out["f64"] != out["draws"]:
        return "init_with_seed f64 output is not the sequence of standard-normal draws of the seeded generator, row-major"
    for b in out["f64"]:
        if not math.isfinite(C.f64_bits_to_float(b)):
            return "non-finite entry"
    for b in out["f32"]:
        if not math.isfinite(C.f32_bits_to_float(b)):
            return "non-finite f32 entry"
    if out["f32"] != [C.float_to_f32_bits(C.f64_bits_to_float(b)) for b in out["draws"]]:
        return "init_with_seed::<f32>(%d,%d,%s) is not the f64 draw stream rounded to f32, row-major" % (n, d, case["seed"])
    if case.get("tail") and not any(abs(C.f64_bits_to_float(b)) > 5.0 for b in out["draws"]):
        return "internal: the tail case for seed %s no longer contains a draw beyond 5 sigma" % case["seed"]
    if "smaller" in case:
        k = case["smaller"] * d
        if out["smaller_f64"] != out["f64"][:k] or out["smaller_f32"] != out["f32"][:k]:
            return "first %d rows of init_with_seed(%d,%d,s) differ from init_with_seed(%d,%d,s)" % (case["smaller"], n, d, case["smaller"], d)
    return None


def finding_class(case, out, d):
    return None


def nontrivial(case, out):
    return case["n"] >= 2 and case["d"] >= 2


def extra(cases, outs, model):
    uses = sum(len(o.get("zig_orc") or []) for o in outs)
    draws = sum(len(o.get("zig_ref") or []) for o in outs)
    return {"ziggurat": {"draws_computed_in_coq_from_seed": draws, "slow_path_oracle_values": uses,
                         "tail_events": sum(1 for o in outs for t in (o.get("zig_orc") or []) if t[0] == 1) // 2},
            "prefix_checks": sum(1 for c in cases if "smaller" in c), "empty_shapes": sum(1 for c in cases if c["n"] * c["d"] == 0)}
