(* Interval enclosures (80-bit, Interval library) of the platform exp / ln values that Model/Ziggurat.v consumes from its
   oracle list: for a logged consumption (kind, argument bits) the enclosure of exp(argument) (kind 0) or ln(argument)
   (kind 1).  The driver checks that every supplied value lies within the enclosure widened by 2 ulp.  Definitions only. *)
From MiniMcmc Require Export Model.Ziggurat.
From MiniMcmc Require Import Model.DualAvg.
From Bignums Require Import BigZ.
From Interval Require Import Specific_bigint Specific_ops Float_full Interval Xreal Basic.
Open Scope Z_scope.

Definition ival_of_b64 (x : binary64) : I.type :=
  match x with
  | Binary.B754_zero _ => I.fromZ iprec 0
  | Binary.B754_finite s m e _ => idy (cond_Zopp s (Zpos m)) e
  | _ => Float.Inan
  end.

Definition orc_enclosure (kind arg : Z) : list Z :=
  let a := ival_of_b64 (zb arg) in
  iout (if kind =? 0 then I.exp iprec a else I.ln iprec a).

Fixpoint orc_enclosures (l : list Z) : list Z :=
  match l with
  | k :: a :: r => orc_enclosure k a ++ orc_enclosures r
  | _ => []
  end.
