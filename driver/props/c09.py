"""C09 — run(): shape, chain order, burn-in discard, continuation."""
import common as C

ID = "C09"
LEVEL = "proof"
DIGEST = True
COQ_HEADER = "From MiniMcmc Require Import Base.Util Model.Run."
RULE = ("counting MarkovChain (state determines the number of transitions) under ChainRunner::run: "
        "n_chains 1..32, dim 1..16, n 0..40, d 0..40, 1..4 consecutive calls; compared exactly with "
        "Model.Run.runner_impl evaluated in Coq. Non-trivial: at least one call with n>=2 and d>=1, "
        "or >= 2 calls (continuation).")
TRUSTED = ["rayon par_iter_mut().map().collect() preserves index order, runs each closure once",
           "ndarray stack/row assign"]
ASSUMPTIONS = ["real samplers (MH/Gibbs/HMC/NUTS) are tied through bit-exact run-vs-manual-stepping identities"]


def generate(rng, tier):
    n_cases = 300 if tier == "quick" else 3000
    cases = []
    # boundary grid first
    for (n, d) in [(0, 0), (0, 3), (1, 0), (1, 1), (2, 0), (3, 40), (40, 0), (40, 40)]:
        cases.append(mk(rng, 1 + len(cases) % 3, 1 + len(cases) % 4, [(n, d)]))
    while len(cases) < n_cases:
        nc = rng.choice([1, 2, 3, 5, 8, 16, 32]) if rng.random() < 0.5 else rng.randint(1, 32)
        dim = rng.randint(1, 16)
        k = rng.choice([1, 1, 2, 3, 4])
        mx = 40 if nc * dim <= 64 else 12
        calls = [(rng.randint(0, mx), rng.randint(0, mx)) for _ in range(k)]
        cases.append(mk(rng, nc, dim, calls))
    return cases


def mk(rng, nc, dim, calls):
    init = [[rng.randint(-500, 500) * 100 for _ in range(dim)] for _ in range(nc)]
    return {"op": "counting", "init": init, "calls": [list(c) for c in calls]}


def coq_term(case, out):
    if case["op"] != "counting":
        return None
    dim = len(case["init"][0])
    calls = "[" + "; ".join("(%s, %s)" % (C.natlit(n), C.natlit(d)) for n, d in case["calls"]) + "]"
    return "count_calls %s %s %s" % (C.natlit(dim), C.zlistlist(case["init"]), calls)


def impl_flat(case, out):
    return out.get("flat")


def compare(case, out, model):
    if "panic" in out:
        return "implementation panicked: " + out["panic"]
    if model is None:
        return None
    if out["flat"] != model:
        return "run output differs from model (first diff at %d)" % first_diff(out["flat"], model)
    return None


def first_diff(a, b):
    for i, (x, y) in enumerate(zip(a, b)):
        if x != y:
            return i
    return min(len(a), len(b))


def pystep(v):
    return [x + k + 1 for k, x in enumerate(v)]


def oracle(case, out):
    """Direct reading of the property: row c, entry k = state after d+k+1 transitions counted
    from the call; shape [n_chains, n, dim]; sampler left at the last state."""
    if "panic" in out:
        return "run panicked: " + out["panic"]
    if case["op"] != "counting":
        return None
    chains = [list(v) for v in case["init"]]
    dim = len(chains[0])
    exp = []
    for ci, (n, d) in enumerate(case["calls"]):
        if out["shapes"][ci] != [len(chains), n, dim]:
            return "shape %s, expected %s" % (out["shapes"][ci], [len(chains), n, dim])
        nxt = []
        for c in chains:
            s = c
            for i in range(d):
                s = pystep(s)
            for k in range(n):
                s = pystep(s)
                exp.extend(s)
            nxt.append(s)
        chains = nxt
    for c in chains:
        exp.extend(c)
    if exp != out["flat"]:
        i = first_diff(out["flat"], exp)
        return "entry %d of the flattened output is %s, the property demands %s" % (
            i, out["flat"][i] if i < len(out["flat"]) else None, exp[i] if i < len(exp) else None)
    return None


def nontrivial(case, out):
    return len(case["calls"]) >= 2 or any(n >= 2 and d >= 1 for n, d in case["calls"])


def finding_class(case, out, d):
    return None
