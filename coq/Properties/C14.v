(* C14 — no sampler ever moves to a zero-density, NaN-density or non-finite state.
   IEEE-754 statements (Flocq, generic in the format: binary32 and binary64) about the accept
   decisions of MH (Model/MH.v), HMC (Model/HMC.v) and NUTS (Model/NUTS.v). *)
From MiniMcmc Require Import Base.Fp Model.MH Model.HMC Model.NUTS Proofs.MH Proofs.HMC Proofs.NUTS Proofs.NoBad.

Section C14.
  Variables prec emax : Z.
  Context (Hprec : FLX.Prec_gt_0 prec) (Hmax : BinarySingleNaN.Prec_lt_emax prec emax).
  Notation fl := (binary_float prec emax).
  Variable nanf : fl -> fl -> { x : fl | Binary.is_nan prec emax x = true }.
  Variable nanf1 : fl -> { x : fl | Binary.is_nan prec emax x = true }.

  (* MH: a candidate whose log-density is NaN or -inf is rejected for EVERY value of the other
     three log-terms and of ln u (including ln u = -inf, i.e. u = 0) *)
  Theorem C14_mh : forall (St : Type) (x y : St) (lp_x lp_y lq_xy lq_yx lnu : fl),
    fnan lp_y = true \/ fneginf lp_y = true ->
    mh_step nanf x y lp_x lp_y lq_xy lq_yx lnu = x.
  Proof.
    intros St x y lp_x lp_y lq_xy lq_yx lnu H. unfold mh_step.
    rewrite (@mh_reject_bad prec emax Hprec Hmax nanf lp_x lp_y lq_xy lq_yx lnu H). reflexivity.
  Qed.

  (* HMC: the Hamiltonian of a proposal whose log-density is NaN or -inf is NaN or +inf (whatever
     its kinetic energy, also non-finite momenta) ... *)
  Theorem C14_hmc_energy : forall lp ke : fl,
    fnan lp = true \/ fneginf lp = true ->
    fnan (@energy prec emax Hprec Hmax nanf nanf1 lp ke) = true \/ fposinf (@energy prec emax Hprec Hmax nanf nanf1 lp ke) = true.
  Proof. exact (@energy_bad prec emax Hprec Hmax nanf nanf1). Qed.

  (* ... and such a proposal is never accepted unless ln u = -inf (acceptance draw exactly 0) *)
  Theorem C14_hmc : forall (A : Type) (x x' : A) (h_cur h_prop lnu : fl),
    fnan h_prop = true \/ fposinf h_prop = true ->
    fneginf lnu = false ->
    hmc_row_float nanf x x' h_cur h_prop lnu = x.
  Proof.
    intros A x x' h_cur h_prop lnu [H|H] Hl; unfold hmc_row_float.
    - rewrite (@hmc_accept_nan prec emax Hprec Hmax nanf h_cur h_prop lnu (or_introl H)). reflexivity.
    - destruct (hmc_accept nanf h_cur h_prop lnu) eqn:E; [|reflexivity].
      rewrite (@hmc_accept_posinf prec emax Hprec Hmax nanf h_cur h_prop lnu H E) in Hl. discriminate Hl.
  Qed.

  (* a value that passes the slice test `logu < joint` is neither NaN nor -inf *)
  Theorem C14_slice_admissible_finite_density : forall logu j : fl,
    flt logu j = true -> fnan j = false /\ fneginf j = false.
  Proof. exact (@flt_true_rhs prec emax). Qed.
End C14.

Section C14_nuts.
  Variables prec emax : Z.
  Notation fl := (binary_float prec emax).
  Context {P A U : Type}.
  Variable leap : bool -> P -> P.
  Variable joint : P -> fl.                 (* the joint log-density as an IEEE value *)
  Variable noturn : P -> P -> bool.
  Variable sub1000 : fl -> fl.
  Variable alpha1 : P -> A.
  Variable aadd : A -> A -> A.
  Variable take2 : U -> nat -> nat -> bool.
  Variable logu : fl.
  Variable accept_top : U -> nat -> nat -> bool.
  Variable okU : U -> Prop.
  Hypothesis Htake0 : forall u n1, okU u -> take2 u n1 0 = false.
  Hypothesis Htake1 : forall u n2, okU u -> take2 u 0 (S n2) = true.
  Hypothesis Hacc0 : forall u n, okU u -> accept_top u 0 n = false.

  (* NUTS: after a transition the chain is at its previous state or at a trajectory point whose
     joint log-density is neither NaN nor -inf (so its log-density is not -inf/NaN and, for a
     target that is NaN/-inf at non-finite positions, its coordinates are finite) *)
  Theorem C14_nuts : forall fuel z0 dirs tus accs st recs dr tr ar,
    Forall okU tus -> Forall okU accs ->
    transition leap joint noturn flt sub1000 alpha1 aadd take2 logu accept_top fuel z0 dirs tus accs
      = Some (st, recs, dr, tr, ar) ->
    cur st = z0 \/ (fnan (joint (cur st)) = false /\ fneginf (joint (cur st)) = false).
  Proof.
    intros fuel z0 dirs tus accs st recs dr tr ar Ht Ha H.
    destruct (transition_next_state leap joint noturn flt sub1000 alpha1 aadd take2 logu accept_top
                okU Htake0 Htake1 Hacc0 fuel z0 dirs tus accs st recs dr tr ar Ht Ha H) as [E|[v [k [_ [_ Hadm]]]]].
    - left. exact E.
    - right. exact (@flt_true_rhs prec emax logu (joint (cur st)) Hadm).
  Qed.

  (* a leaf of NaN joint density contributes no admissible point and stops its sub-tree *)
  Theorem C14_nuts_nan_leaf : forall v z,
    fnan (joint (leap v z)) = true ->
    tn (leaf leap joint flt sub1000 alpha1 logu v z) = 0 /\ ts (leaf leap joint flt sub1000 alpha1 logu v z) = false.
  Proof.
    intros v z H. unfold leaf; simpl.
    assert (E : forall a : fl, flt a (joint (leap v z)) = false).
    { intros a. destruct (flt a (joint (leap v z))) eqn:F; [|reflexivity].
      destruct (@flt_true_rhs prec emax a _ F) as [N _]. rewrite H in N. discriminate N. }
    rewrite !E. split; reflexivity.
  Qed.
End C14_nuts.

(* Non-vacuity / concrete instances in binary32 *)
Example C14_mh_concrete :
  (* lp_y = -inf, everything else 0, ln u = -inf (u = 0): rejected *)
  mh_accept32 0 4286578688 0 0 4286578688 = [0%Z] /\
  (* lp_y = NaN *)
  mh_accept32 0 2143289344 0 0 3212836864 = [0%Z].
Proof. split; vm_compute; reflexivity. Qed.

Example C14_hmc_concrete :
  (* h_prop = +inf, ln u = -1: mask 0;  h_prop = NaN, ln u = -inf: mask 0 *)
  nth 1 (hmc_decide32 1065353216 2139095040 3212836864) 9%Z = 0%Z /\
  nth 1 (hmc_decide32 1065353216 2143289344 4286578688) 9%Z = 0%Z.
Proof. split; vm_compute; reflexivity. Qed.

Print Assumptions C14_mh.
Print Assumptions C14_hmc_energy.
Print Assumptions C14_hmc.
Print Assumptions C14_slice_admissible_finite_density.
Print Assumptions C14_nuts.
Print Assumptions C14_nuts_nan_leaf.
