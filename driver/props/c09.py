"""C09 — run(): shape, chain order, burn-in discard, continuation."""
import common as C

ID = "C09"
LEVEL = "proof"
DIGEST = True
COQ_HEADER = "From MiniMcmc Require Import Base.Util Model.Run."
RULE = ("counting MarkovChain (state determines the number of transitions) under ChainRunner::run: "
        "n_chains 1..32, dim 1..16, n 0..40, d 0..40, 1..4 consecutive calls; compared exactly with "
        "Model.Run.runner_impl evaluated in Coq. Non-trivial: at least one call with n>=2 and d>=1, "
        "or >= 2 calls (continuation).")
TRUSTED = ["rayon par_iter_mut().map().collect() preserves index order, runs each closure once",
           "ndarray stack/row assign"]
ASSUMPTIONS = ["real samplers (MH/Gibbs/HMC/NUTS) are tied through bit-exact run-vs-manual-stepping identities"]


def generate(rng, tier):
    n_cases = 300 if tier == "quick" else 3000
    cases = []
    # boundary grid first
    for (n, d) in [(0, 0), (0, 3), (1, 0), (1, 1), (2, 0), (3, 40), (40, 0), (40, 40)]:
        cases.append(mk(rng, 1 + len(cases) % 3, 1 + len(cases) % 4, [(n, d)]))
    while len(cases) < n_cases:
        nc = rng.choice([1, 2, 3, 5, 8, 16, 32]) if rng.random() < 0.5 else rng.randint(1, 32)
        dim = rng.randint(1, 16)
        k = rng.choice([1, 1, 2, 3, 4])
        mx = 40 if nc * dim <= 64 else 12
        calls = [(rng.randint(0, mx), rng.randint(0, mx)) for _ in range(k)]
        cases.append(mk(rng, nc, dim, calls))
    # real samplers: run(n,d) vs an identically built instance stepped manually; continuation; NUTS multi vs single
    for kind, f in [("mh", "f64"), ("gibbs", "f64"), ("hmc", "f32"), ("nuts", "f32"), ("hmc", "f64"), ("nuts", "f64"),
                    ("hmc", "f32b64"), ("hmc", "f64b32")]:
        for _ in range(3 if tier == "quick" else 25):
            n = rng.randint(1 if kind == "nuts" else 0, 7)
            cases.append({"op": "real", "kind": kind, "f": f, "seed": str(rng.getrandbits(64)), "n_chains": rng.choice([1, 2, 5]),
                          "n": n, "d": rng.randint(0, 6), "n2": rng.randint(0, 4)})
        if kind != "nuts":
            # a warm-up-only call run(0, d) must still perform its d transitions (seen through the following run)
            cases.append({"op": "real", "kind": kind, "f": f, "seed": str(rng.getrandbits(64)), "n_chains": rng.choice([1, 3]),
                          "n": 0, "d": rng.randint(2, 5), "n2": rng.randint(2, 4)})
    return cases


def mk(rng, nc, dim, calls):
    init = [[rng.randint(-500, 500) * 100 for _ in range(dim)] for _ in range(nc)]
    return {"op": "counting", "init": init, "calls": [list(c) for c in calls]}


KIND = {"mh": 0, "gibbs": 0, "hmc": 1, "nuts": 2}


def coq_term(case, out):
    if case["op"] == "real":
        if "panic" in out:
            return None
        return "real_idx %s %s %s" % (C.natlit(KIND[case["kind"]]), C.natlit(case["n"]), C.natlit(case["d"]))
    if case["op"] != "counting":
        return None
    dim = len(case["init"][0])
    calls = "[" + "; ".join("(%s, %s)" % (C.natlit(n), C.natlit(d)) for n, d in case["calls"]) + "]"
    return "count_calls %s %s %s" % (C.natlit(dim), C.zlistlist(case["init"]), calls)


def real_rows(case, out, idx):
    """rows the model predicts: for each chain, trajectory states at the model's transition counts"""
    nc = len(out["traj"])
    exp = []
    for c in range(nc):
        for t in idx:
            exp += out["traj"][c][t]
    return exp


def impl_flat(case, out):
    if case["op"] == "real":
        if "panic" in out:
            return None
        n, d = case["n"], case["d"]
        # digest of the model's index list cannot be computed without the model: return the property's own indices
        if case["kind"] == "nuts":
            return [d + k for k in range(n)] + [n + d - 1]
        return [d + k + 1 for k in range(n)] + [n + d]
    return out.get("flat")


def compare(case, out, model):
    if "panic" in out:
        return "implementation panicked: " + out["panic"]
    if model is None:
        return None
    if case["op"] == "real":
        idx, fin = model[:-1], model[-1]
        got = out["chain_runs"] if case["kind"] == "nuts" else None
        nc = len(out["traj"])
        if case["kind"] == "nuts":
            for c in range(nc):
                exp = []
                for t in idx:
                    exp += out["traj"][c][t]
                if out["chain_runs"][c] != exp:
                    return "NUTSChain::run rows are not the states after the model's transition counts %s" % idx
                if out["traj"][c][fin] != out["final"][c] and case["n2"] == 0:
                    return "NUTS chain not left at the state after %d transitions" % fin
        else:
            if out["run"] != real_rows(case, out, idx):
                return "%s run(n=%d,d=%d) rows are not the states after the model's transition counts %s" % (case["kind"], case["n"], case["d"], idx)
        return None
    if out["flat"] != model:
        return "run output differs from model (first diff at %d)" % first_diff(out["flat"], model)
    return None


def first_diff(a, b):
    for i, (x, y) in enumerate(zip(a, b)):
        if x != y:
            return i
    return min(len(a), len(b))


def pystep(v):
    return [x + k + 1 for k, x in enumerate(v)]


def oracle(case, out):
    """Direct reading of the property: row c, entry k = state after d+k+1 transitions counted
    from the call; shape [n_chains, n, dim]; sampler left at the last state."""
    if "panic" in out:
        return "run panicked: " + out["panic"]
    if case["op"] == "real":
        return oracle_real(case, out)
    if case["op"] != "counting":
        return None
    chains = [list(v) for v in case["init"]]
    dim = len(chains[0])
    exp = []
    for ci, (n, d) in enumerate(case["calls"]):
        if out["shapes"][ci] != [len(chains), n, dim]:
            return "shape %s, expected %s" % (out["shapes"][ci], [len(chains), n, dim])
        nxt = []
        for c in chains:
            s = c
            for i in range(d):
                s = pystep(s)
            for k in range(n):
                s = pystep(s)
                exp.extend(s)
            nxt.append(s)
        chains = nxt
    for c in chains:
        exp.extend(c)
    if exp != out["flat"]:
        i = first_diff(out["flat"], exp)
        return "entry %d of the flattened output is %s, the property demands %s" % (
            i, out["flat"][i] if i < len(out["flat"]) else None, exp[i] if i < len(exp) else None)
    return None


def oracle_real(case, out):
    """property text on the real samplers: entry k = state after d+k+1 transitions (NUTS d+k); sampler left at the last
    state; two consecutive runs = one longer run; multi-chain NUTS = its chains individually"""
    n, d, n2 = case["n"], case["d"], case["n2"]
    kind = case["kind"]
    nc = len(out["traj"])
    tag = "%s n=%d d=%d chains=%d" % (kind, n, d, nc)
    if kind == "nuts":
        for c in range(nc):
            exp = []
            for k in range(n):
                exp += out["traj"][c][d + k]
            if out["chain_runs"][c] != exp:
                return "%s: chain %d: run() entry is not the state after n_discard + k transitions" % (tag, c)
            # a following run starts from (and repeats) the last returned state
            dim = len(out["traj"][c][0])
            if out["chain_runs2"][c][:dim] != out["chain_runs"][c][-dim:]:
                return "%s: chain %d: following run does not start from the last returned state" % (tag, c)
        flat = []
        for c in range(nc):
            flat += out["chain_runs"][c]
        if out["multi"] != flat:
            return "%s: multi-chain NUTS::run differs from its chains' individual runs" % tag
        if out["shape"] != [nc, n, 2]:
            return "%s: shape %s" % (tag, out["shape"])
        return None
    if out["shape"] != [nc, n, 2]:
        return "%s: shape %s" % (tag, out["shape"])
    exp, exp2 = [], []
    for c in range(nc):
        for k in range(n):
            exp += out["traj"][c][d + k + 1]
    for c in range(nc):
        for k in range(n2):
            exp2 += out["traj"][c][n + d + k + 1]
    if out["run"] != exp:
        return "%s: run() entry k is not the chain's state after n_discard + k + 1 transitions" % tag
    if out["run2"] != exp2:
        return "%s: a following run(%d, 0) does not continue from the last returned state" % (tag, n2)
    # two consecutive runs = one longer run
    longexp = []
    for c in range(nc):
        for k in range(n + n2):
            longexp += out["traj"][c][d + k + 1]
    if out["long"] != longexp:
        return "%s: run(%d,%d) differs from run(%d,%d) followed by run(%d,0)" % (tag, n + n2, d, n, d, n2)
    for c in range(nc):
        if out["final"][c] != out["traj"][c][n + d + n2]:
            return "%s: sampler not left at the last state (more or fewer transitions than needed)" % tag
    return None


def nontrivial(case, out):
    if case["op"] == "real":
        return case["n"] >= 2
    return len(case["calls"]) >= 2 or any(n >= 2 and d >= 1 for n, d in case["calls"])


def finding_class(case, out, d):
    return None
