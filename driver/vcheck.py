#!/usr/bin/env python3
"""vcheck Cxx [--tier quick|thorough] [--replay path]

Proof stage (Rocq/Coq), harness build against /repo's working tree (hooks on),
correspondence check model-vs-implementation, property oracle, verdict, evidence."""
import argparse, importlib, json, os, random, sys, time, traceback
sys.path.insert(0, os.path.dirname(os.path.abspath(__file__)))
import common as C


def main():
    ap = argparse.ArgumentParser()
    ap.add_argument("pid")
    ap.add_argument("--tier", default=os.environ.get("VERIF_TIER", "quick"))
    ap.add_argument("--replay", default=None)
    a = ap.parse_args()
    pid = a.pid
    tier = a.tier if a.tier in ("quick", "thorough") else "quick"
    try:
        seed = int(os.environ.get("VERIF_SEED", "0"))
    except ValueError:
        seed = 0
    t0 = time.time()
    mod = importlib.import_module("props." + pid.lower())
    level = mod.LEVEL
    known = C.load_known()
    known_classes = {f["class"]: f for f in known.get("findings", []) if f["property"] == pid}

    violations = []      # (description, replay payload)
    notes = []
    # ---------------------------------------------------------------- proof stage
    proof = C.proof_stage(pid)
    if not proof["ok"]:
        notes.append("proof stage failed: " + proof["log"][-1500:])

    # --------------------------------------------------------------- build stage
    ok, log = C.build_harness()
    cases, outs, model, mism, hits, known_hits = [], [], [], [], [], []
    cov_extra = {}
    cov_selftest = {"tried": 0, "detected": 0}
    if not ok:
        violations.append(("harness does not build against /repo's working tree",
                           {"stage": "build", "log": log, "no_failing_input_found": True}))
    else:
        rng = random.Random("%d/%s" % (seed, pid))
        try:
            if a.replay:
                rp = json.load(open(a.replay))
                cases = rp.get("cases") or ([rp["case"]] if "case" in rp else [])
            else:
                cases = mod.corpus() if hasattr(mod, "corpus") else []
                cases += mod.generate(rng, tier)
            outs = mod.run_impl(cases) if hasattr(mod, "run_impl") else C.run_harness(pid, cases)
            # ---------------------------------------------------- model evaluation
            def term_of(i):
                # a case whose implementation output cannot be rendered as a Gallina term (NaN where the model takes a
                # number, say) is left to the property oracle; it must not take the whole correspondence down
                try:
                    return mod.coq_term(cases[i], outs[i])
                except Exception as ex:
                    notes.append("case %d: no model term (%s)" % (i, ex))
                    return None
            term_cache = {i: term_of(i) for i in range(len(cases))}
            idx = [i for i in range(len(cases)) if term_cache[i] is not None]
            terms = [term_cache[i] for i in idx]
            model = [None] * len(cases)
            if getattr(mod, "DIGEST", False):
                # model outputs are compared through a digest computed inside Coq; cases whose
                # digest differs from the implementation's are re-evaluated and printed in full
                dres = C.coq_eval(pid, mod.COQ_HEADER, terms, use_digest=True) if terms else []
                redo = []
                for i, r in zip(idx, dres):
                    exp = mod.impl_flat(cases[i], outs[i])
                    if exp is not None and C.digest(exp) == r:
                        model[i] = exp
                    else:
                        redo.append(i)
                if redo:
                    full = C.coq_eval(pid, mod.COQ_HEADER, [mod.coq_term(cases[i], outs[i]) for i in redo[:20]],
                                      shard=2, tag="full")
                    for i, r in zip(redo[:20], full):
                        model[i] = r
                    for i in redo[20:]:
                        model[i] = ["digest-mismatch"]
            else:
                mres = C.coq_eval(pid, mod.COQ_HEADER, terms) if terms else []
                for i, r in zip(idx, mres):
                    model[i] = r
            # ------------------------------------------------------ diff stage
            for i in range(len(cases)):
                d = mod.compare(cases[i], outs[i], model[i])
                if d:
                    mism.append((i, d))
            # ------------------------------------ differ self-test: a corrupted model output must be reported
            selftest = {"tried": 0, "detected": 0}
            corrupt = getattr(mod, "corrupt", lambda m: [3 * x + 1 if i % 2 == 0 else x for i, x in enumerate(m)])
            clean = [i for i in range(len(cases)) if model[i] is not None and model[i] and i not in {j for j, _ in mism}]
            for i in clean[:12]:
                selftest["tried"] += 1
                try:
                    if mod.compare(cases[i], outs[i], corrupt(list(model[i]))):
                        selftest["detected"] += 1
                except Exception:
                    selftest["detected"] += 1       # a malformed model output is noticed as well
            cov_selftest = selftest
            # --------------------------------- property oracle (always, on everything)
            for i in range(len(cases)):
                d = mod.oracle(cases[i], outs[i])
                if d:
                    cls = mod.finding_class(cases[i], outs[i], d) if hasattr(mod, "finding_class") else None
                    if cls in known_classes:
                        known_hits.append((i, d, cls))
                    else:
                        hits.append((i, d))
            if hasattr(mod, "global_check"):          # verdicts over the whole batch (e.g. too many watchdog hits)
                for i, d in mod.global_check(cases, outs):
                    hits.append((i, d))
            if hasattr(mod, "extra"):
                cov_extra = mod.extra(cases, outs, model) or {}
        except Exception as ex:
            traceback.print_exc()
            violations.append(("correspondence check could not run: %s" % ex,
                               {"stage": "run", "error": str(ex), "no_failing_input_found": True}))

    # ------------------------------------------------------------------- verdict
    if cov_selftest["tried"] >= 3 and cov_selftest["detected"] * 2 < cov_selftest["tried"]:
        violations.append(("differ self-test failed: corrupted model outputs were accepted (%s)" % cov_selftest,
                           {"stage": "selftest", "selftest": cov_selftest, "no_failing_input_found": True,
                            "unchecked": "correspondence %s (the differ cannot be trusted)" % pid}))
    for i, d in hits[:5]:
        violations.append((d, {"stage": "oracle", "case": cases[i], "impl": outs[i],
                               "model": model[i] if model else None, "what": d}))
    if not hits:
        if mism:
            i, d = mism[0]
            violations.append(("model/implementation disagreement (%d cases), first: %s" % (len(mism), d),
                               {"stage": "correspondence", "case": cases[i], "impl": outs[i],
                                "model": model[i], "what": d, "n_disagreements": len(mism),
                                "no_failing_input_found": True,
                                "unchecked": "correspondence %s (model no longer describes the code)" % pid}))
        if not proof["ok"]:
            violations.append(("proof obligation no longer checks",
                               {"stage": "proof", "log": proof["log"], "no_failing_input_found": True,
                                "unchecked": "Properties/%s.v: %s" % (pid, proof["theorems"])}))

    seen_cls = set()
    for i, d, cls in known_hits:
        if cls not in seen_cls:
            seen_cls.add(cls)
            print("KNOWN-FINDING: property=%s %s" % (pid, known_classes[cls]["what"]))

    nontriv = set()
    for i in range(len(outs)):
        try:
            if mod.nontrivial(cases[i], outs[i]):
                nontriv.add(json.dumps(cases[i], sort_keys=True))
        except Exception:
            pass
    samples = [C.abbrev({"case": cases[i], "impl": outs[i], "model": model[i] if model else None})
               for i in range(min(2, len(outs)))]
    coverage = {
        "obligations": proof["obligations"], "discharged": proof["discharged"],
        "checker_cmd": "make -C /verif/coq Properties/%s.vo (coqc 8.16.1, full .vo build) + Print Assumptions allowlist + forbidden-construct scan" % pid,
        "trusted_base": ["Coq 8.16.1 kernel + vm_compute", "axioms: %s" % (proof["axioms"] or "none"),
                         "correspondence check: /verif/harness (Rust) + /verif/driver (python)"] + list(getattr(mod, "TRUSTED", [])),
        "theorems": proof["theorems"], "coq_closure": proof["closure"],
        "evaluations": len(outs), "distinct_nontrivial": len(nontriv),
        "rule": mod.RULE, "samples": samples,
        "traces_validated_against_impl": len([m for m in model if m is not None]),
        "model_impl_disagreements": len(mism), "oracle_hits": len(hits),
        "known_finding_hits": len(known_hits),
        "explanation": getattr(mod, "EXPLANATION", mod.RULE),
    }
    coverage["differ_selftest"] = dict(cov_selftest, rule="up to 12 agreeing cases are re-compared against a deliberately corrupted model output; the differ must object")
    coverage.update(cov_extra)
    try:
        import tieaudit
        ta = tieaudit.audit(pid, os.path.join(C.CACHE, "cases", pid))
        coverage["tie_audit"] = ta
        if ta["unreached_unexplained"]:
            notes.append("tie audit: model definitions named in theorem statements but not reached by any evaluated case and not "
                         "explained in coq/tie_allow.json: %s" % ", ".join(sorted(ta["unreached_unexplained"])))
    except Exception as e:                       # the audit is a report about the machinery, never a verdict
        coverage["tie_audit"] = {"error": repr(e)}
    C.write_evidence(pid, tier, seed, level, coverage, list(getattr(mod, "ASSUMPTIONS", [])),
                     time.time() - t0, len(violations))
    for n in notes:
        print("note:", n[:2000])
    if violations:
        for d, payload in violations:
            payload["property"] = pid
            payload["tier"] = tier
            payload["seed"] = seed
            path = C.write_replay(pid, payload)
            tail = " no-failing-input-found" if payload.get("no_failing_input_found") else ""
            print("# %s" % d[:1500])
            print("VIOLATION property=%s replay=%s%s" % (pid, path, tail))
        sys.exit(1)
    print("OK %s tier=%s theorems=%d/%d cases=%d nontrivial=%d model-evaluated=%d wall=%.1fs" % (
        pid, tier, proof["discharged"], proof["obligations"], len(outs), len(nontriv),
        len([m for m in model if m is not None]), time.time() - t0))
    sys.exit(0)


if __name__ == "__main__":
    main()
