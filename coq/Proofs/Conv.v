(* Proofs for C18 (conversion part): f64 -> f32 (`x as f32`) of a finite value of moderate
   magnitude is the correctly rounded (nearest-even) binary32 value and does not overflow. *)
From Coq Require Import Reals.
From Flocq Require Import Core.Raux Core.Defs Core.Float_prop Core.Generic_fmt Core.FLT
  Core.Round_NE.
From MiniMcmc Require Import Model.Init.
Open Scope R_scope.

Lemma f64_to_f32_finite (x : binary64) :
  Binary.is_finite 53 1024 x = true ->
  Rabs (Binary.B2R 53 1024 x) <= bpow radix2 100 ->
  Binary.is_finite 24 128 (f64_to_f32 x) = true /\
  Binary.B2R 24 128 (f64_to_f32 x)
  = round radix2 (FLT_exp (3 - 128 - 24) 24) ZnearestE (Binary.B2R 53 1024 x).
Proof.
  intros Hfin Habs.
  destruct x as [s | s | s pl Hpl | s m e Hb]; try discriminate Hfin.
  - simpl. rewrite round_0 by apply valid_rnd_N. auto.
  - pose proof (Binary.binary_normalize_correct 24 128 prec32 emax32 mode_NE
                  (cond_Zopp s (Zpos m)) e s) as Hn.
    change (f64_to_f32 (Binary.B754_finite 53 1024 s m e Hb))
      with (Binary.binary_normalize 24 128 prec32 emax32 mode_NE (cond_Zopp s (Zpos m)) e s).
    change (Binary.B2R 53 1024 (Binary.B754_finite 53 1024 s m e Hb))
      with (F2R (Float radix2 (cond_Zopp s (Zpos m)) e)) in *.
    change (BinarySingleNaN.round_mode mode_NE) with ZnearestE in Hn.
    change (SpecFloat.fexp 24 128) with (FLT_exp (3 - 128 - 24) 24) in Hn.
    rewrite Rlt_bool_true in Hn.
    + destruct Hn as [Hn1 [Hn2 _]]. split; [exact Hn2 | exact Hn1].
    + apply Rle_lt_trans with (bpow radix2 100); [|apply bpow_lt; reflexivity].
      apply abs_round_le_generic; [apply FLT_exp_valid; reflexivity | apply valid_rnd_N | | exact Habs].
      apply generic_format_FLT_bpow; [reflexivity | lia].
Qed.
