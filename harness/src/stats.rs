//! C11, C12, C13: stats.rs — split R-hat, ESS, run summary, streaming trackers.
use crate::util::*;
use mini_mcmc::stats::{
    basic_stats, collect_rhat, split_rhat_mean_ess, ChainStats, ChainTracker, MultiChainTracker, RunStats,
};
use ndarray::{Array1, Array3};
use serde_json::{json, Value};

fn f32s(a: &Array1<f32>) -> Vec<u64> {
    a.iter().map(|x| b32(*x)).collect()
}

/// data[chain][step][param] as integers m, value = m * 2^e
fn data3(c: &Value) -> (Vec<Vec<Vec<i64>>>, i32) {
    let e = c["e"].as_i64().unwrap_or(0) as i32;
    let d = arr(c, "data").iter().map(|ch| arr_of(ch).iter().map(i64s).collect()).collect();
    (d, e)
}
fn arr_of(v: &Value) -> &Vec<Value> {
    v.as_array().unwrap()
}
fn scale(m: i64, e: i32) -> f64 {
    (m as f64) * 2f64.powi(e)
}

trait Elem: Copy + num_traits::ToPrimitive + num_traits::Num + num_traits::FromPrimitive + PartialOrd {
    fn mk(m: i64, e: i32) -> Self;
}
impl Elem for f32 {
    fn mk(m: i64, e: i32) -> Self {
        scale(m, e) as f32
    }
}
impl Elem for f64 {
    fn mk(m: i64, e: i32) -> Self {
        scale(m, e)
    }
}
impl Elem for i32 {
    fn mk(m: i64, _e: i32) -> Self {
        m as i32
    }
}
impl Elem for u64 {
    fn mk(m: i64, _e: i32) -> Self {
        m as u64
    }
}

fn tracker<T: Elem>(c: &Value) -> Value {
    let (data, e) = data3(c);
    let init: Vec<Vec<i64>> = arr(c, "init").iter().map(i64s).collect();
    let n_chains = data.len();
    let n_steps = data[0].len();
    let n_params = init[0].len();
    let mut stats: Vec<ChainStats> = vec![];
    let mut chains_out = vec![];
    for ci in 0..n_chains {
        let i0: Vec<T> = init[ci].iter().map(|m| T::mk(*m, e)).collect();
        let mut t = ChainTracker::new(n_params, &i0);
        let mut ps = vec![];
        for s in 0..n_steps {
            let x: Vec<T> = data[ci][s].iter().map(|m| T::mk(*m, e)).collect();
            t.step(&x).expect("tracker step");
            ps.push(b32(t.stats().p_accept));
        }
        let st = t.stats();
        chains_out.push(json!({"n": st.n, "p": ps, "mean": f32s(&st.mean), "sm2": f32s(&st.sm2)}));
        stats.push(st);
    }
    let refs: Vec<&ChainStats> = stats.iter().collect();
    let crhat = if n_chains >= 2 { f32s(&collect_rhat(&refs)) } else { vec![] };
    // multi-chain tracker on the same draws
    let mut mt = MultiChainTracker::new(n_chains, n_params);
    let mut mps = vec![];
    for s in 0..n_steps {
        let mut flat: Vec<T> = vec![];
        for ci in 0..n_chains {
            flat.extend(data[ci][s].iter().map(|m| T::mk(*m, e)));
        }
        mt.step(&flat).expect("multi step");
        mps.push(b32(mt.p_accept));
    }
    let mrhat = if n_chains >= 2 { f32s(&mt.rhat().expect("rhat")) } else { vec![] };
    let mmax = if n_chains >= 2 { mt.max_rhat().map(b32).unwrap_or(u64::MAX) } else { 0 };
    json!({"chains": chains_out, "collect_rhat": crhat, "multi_rhat": mrhat, "multi_max": mmax, "multi_p": mps})
}

fn split<T: Elem>(c: &Value) -> Value {
    let (data, e) = data3(c);
    let (m, n, p) = (data.len(), data[0].len(), data[0].get(0).map(|r| r.len()).unwrap_or(0));
    // the logical array is always [chain][draw][param]; "layout" chooses how it is stored in memory
    let layout = c["layout"].as_str().unwrap_or("std");
    let a: Array3<T> = match layout {
        "perm" => {
            // draw-major storage, viewed with permuted axes
            let b = Array3::<T>::from_shape_fn((n, m, p), |(j, i, k)| T::mk(data[i][j][k], e));
            b.permuted_axes([1, 0, 2])
        }
        "fortran" => {
            use ndarray::ShapeBuilder;
            let mut b = Array3::<T>::from_elem((m, n, p).f(), T::mk(0, 0));
            for i in 0..m {
                for j in 0..n {
                    for k in 0..p {
                        b[[i, j, k]] = T::mk(data[i][j][k], e);
                    }
                }
            }
            b
        }
        _ => Array3::<T>::from_shape_fn((m, n, p), |(i, j, k)| T::mk(data[i][j][k], e)),
    };
    let f = a.mapv(|x| x.to_f32().unwrap());
    let (rhat, ess) = split_rhat_mean_ess(f.view());
    let rs = RunStats::from(a.view());
    let bs = |b: &mini_mcmc::stats::BasicStats| json!({"min": b32(b.min), "median": b32(b.median), "max": b32(b.max), "mean": b32(b.mean), "std": b32(b.std)});
    json!({"rhat": f32s(&rhat), "ess": f32s(&ess), "rs_rhat": bs(&rs.rhat), "rs_ess": bs(&rs.ess)})
}

fn basic(c: &Value) -> Value {
    let v: Vec<f32> = u64s(&c["bits"]).into_iter().map(f32b).collect();
    let b = basic_stats("x", Array1::from_vec(v));
    json!({"min": b32(b.min), "median": b32(b.median), "max": b32(b.max), "mean": b32(b.mean), "std": b32(b.std)})
}

pub fn run(c: &Value) -> Value {
    match (strf(c, "op"), c["ty"].as_str().unwrap_or("f32")) {
        ("tracker", "f32") => tracker::<f32>(c),
        ("tracker", "f64") => tracker::<f64>(c),
        ("tracker", "i32") => tracker::<i32>(c),
        ("tracker", "u64") => tracker::<u64>(c),
        ("split", "f32") => split::<f32>(c),
        ("split", "f64") => split::<f64>(c),
        ("split", "i32") => split::<i32>(c),
        ("basic", _) => basic(c),
        (op, ty) => panic!("unknown op {op}/{ty}"),
    }
}
